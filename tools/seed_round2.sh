#!/bin/bash
# second corpus round (variants c, d): /root/scratch/mutants2/<id>.out/<v>/
cd /verif
ls -d /root/scratch/mutants2/C*.out/[cd] | while read d; do
  id=$(echo $d | sed 's|.*/\(C[0-9]*\)\.out/.*|\1|'); v=$(basename $d)
  [ -f $d/patch.diff ] && echo "$id $v $d"
done > /root/scratch/seed_jobs2.txt
cat /root/scratch/seed_jobs2.txt | xargs -P 2 -L 1 tools/seed_one.sh
