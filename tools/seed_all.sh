#!/bin/bash
# seed_all.sh: (re)validates every seeded change under /root/scratch/mutants and stores it in /verif/seeded
cd /verif
ls -d /root/scratch/mutants/C*.out/[ab] | while read d; do
  id=$(echo $d | sed 's|.*/\(C[0-9]*\)\.out/.*|\1|'); v=$(basename $d)
  echo "$id $v $d"
done > /root/scratch/seed_jobs.txt
cat /root/scratch/seed_jobs.txt | xargs -P 2 -L 1 tools/seed_one.sh
