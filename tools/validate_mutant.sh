#!/bin/bash
# validate_mutant.sh <dir with patch.diff, zz_demo_test.go, notes.md> <pkgdir relative to kernel/>
# Confirms in a scratch worktree: patch applies, suite passes with it, demo fails with it, demo passes without it.
set -u
D=$1; PKG=$2
export GOFLAGS=-mod=mod GOPROXY=off GOSUMDB=off GOTOOLCHAIN=local
W=$(mktemp -d /tmp/mv.XXXXXX)
git -C /repo worktree add -q --detach $W/wt HEAD || exit 3
cd $W/wt
res=""
if ! git apply $D/patch.diff 2>$W/apply.err; then res="APPLY-FAIL"; fi
if [ -z "$res" ]; then
  (cd kernel && go test -vet=off -count=1 ./... 2>&1) > $W/suite.log
  if grep -v "kernel/goruntime" $W/suite.log | grep -q "^FAIL\|^--- FAIL\|panic:"; then res="SUITE-FAILS-WITH-PATCH"; fi
fi
if [ -z "$res" ]; then
  cp $D/zz_demo_test.go kernel/$PKG/zz_demo_test.go
  (cd kernel && go test -vet=off -count=1 -timeout 120s -run 'Demo|demo|Zz|ZZ|Mutant|C[0-9][0-9]' ./$PKG/ 2>&1) > $W/demo_with.log
  (cd kernel && go test -vet=off -count=1 -timeout 120s ./$PKG/ 2>&1) > $W/demo_with_all.log
  if grep -q "^ok" $W/demo_with_all.log; then res="DEMO-PASSES-WITH-PATCH"; fi
  git apply -R $D/patch.diff
  (cd kernel && go test -vet=off -count=1 -timeout 120s ./$PKG/ 2>&1) > $W/demo_without.log
  if [ -z "$res" ] && ! grep -q "^ok" $W/demo_without.log; then res="DEMO-FAILS-WITHOUT-PATCH"; fi
fi
[ -z "$res" ] && res="VALID"
echo "$res $D"
cd /; git -C /repo worktree remove --force $W/wt; rm -rf $W
