#!/bin/bash
# Re-runs every claimed quick check on the clean /repo tree and validates the evidence files.
cd /verif
git -C /repo status --short | grep -v '^??' && { echo "/repo has uncommitted changes"; exit 1; }
for id in $(jq -r '.checks[].property_id' MANIFEST.json); do
  out=$(timeout 1500 ./bin/govc check -p $id 2>&1); rc=$?
  echo "$out" | grep -E "^VIOLATION|^UNDECIDED" | cut -c1-200
  echo "$out" | tail -1 | cut -c1-170
  [ $rc -ne 0 ] && echo "!! $id exit $rc"
  python3-vt -c "
import json,jsonschema,sys
e=json.load(open('/verif/evidence/$id.json'))
jsonschema.validate(e,json.load(open('/root/.vp/EVIDENCE.schema.json')))
assert e['coverage']['obligations']==e['coverage']['discharged'], 'discharged != obligations'
" || echo "!! evidence $id invalid"
done
