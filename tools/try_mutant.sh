#!/bin/bash
# try_mutant.sh <patch> <property id> [extra govc args]: runs the check against a scratch worktree of
# /repo HEAD with the patch applied (does not touch /repo's working tree or /verif/evidence).
P=$1; ID=$2; shift 2
W=/root/scratch/try.$$; mkdir -p $W
git -C /repo worktree add -q --detach $W/wt HEAD || exit 3
(cd $W/wt && git apply $P) || { echo "patch does not apply"; git -C /repo worktree remove --force $W/wt; rm -rf $W; exit 3; }
GOVC_OUT=$W/out timeout 1500 /verif/bin/govc check -repo $W/wt -p $ID "$@" 2>&1 | grep -E "^VIOLATION|^UNDECIDED|^KNOWN|^$ID |engine:" | sed "s|$W/out|<out>|" | cut -c1-260
rm -rf /root/scratch/lastout; cp -r $W/out /root/scratch/lastout 2>/dev/null; git -C /repo worktree remove --force $W/wt; rm -rf $W
