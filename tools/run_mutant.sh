#!/bin/bash
# run_mutant.sh <patch.diff> <property id> [tier]: apply to /repo, run the check, revert.
P=$1; ID=$2; T=${3:-quick}
cd /repo && git apply $P || { echo "patch does not apply"; exit 3; }
/verif/bin/govc check -p $ID -tier $T 2>&1 | grep -E "^VIOLATION|^UNDECIDED|^KNOWN|^$ID " | cut -c1-300
git -C /repo checkout -- . 
