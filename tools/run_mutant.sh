#!/bin/bash
# run_mutant.sh <patch.diff> <property id> [tier]: apply to /repo, run the check, revert.
# The evidence file of the property is saved and restored (evidence must come from the clean tree).
P=$1; ID=$2; T=${3:-quick}
[ -z "$(git -C /repo status --porcelain)" ] || { echo "/repo has uncommitted changes: commit them first (this script reverts the working tree)"; exit 3; }
cp /verif/evidence/$ID.json /tmp/evidence.$ID.save 2>/dev/null
cd /repo && git apply $P || { echo "patch does not apply"; exit 3; }
timeout 1500 /verif/bin/govc check -p $ID -tier $T 2>&1 | grep -E "^VIOLATION|^UNDECIDED|^KNOWN|^$ID " | cut -c1-300
git -C /repo checkout -- .
cp /tmp/evidence.$ID.save /verif/evidence/$ID.json 2>/dev/null
