#!/bin/bash
# seed_one.sh <property id> <variant> <source dir with patch(.rebased).diff, zz_demo_test.go, notes.md>
# In a scratch worktree of /repo HEAD: validates the seeded change (applies; existing suite passes
# with it; demonstration fails with it and passes without it), runs the property's check against
# the changed tree (evidence and replay files redirected with GOVC_OUT), and stores the change
# under /verif/seeded/<id>/<variant>/ with meta.json. The worktree is removed afterwards.
set -u
ID=$1; V=$2; SRC=$3
export GOFLAGS=-mod=mod GOPROXY=off GOSUMDB=off GOTOOLCHAIN=local
PATCH=$SRC/patch.diff; [ -f $SRC/patch.rebased.diff ] && PATCH=$SRC/patch.rebased.diff
W=/root/scratch/seed.$ID.$V; rm -rf $W; mkdir -p $W
git -C /repo worktree add -q --detach $W/wt HEAD || exit 3
cd $W/wt
# package of the demonstration: stated in the notes, else the directory of the first patched file
PKG=$(grep -o 'belongs in `kernel/[a-z/]*' $SRC/notes.md | head -1 | sed 's|.*`kernel/||; s|/$||')
[ -z "$PKG" ] && PKG=$(grep -m1 '^+++ b/kernel/' $PATCH | sed 's|+++ b/kernel/||; s|/[^/]*$||')
applies=true; suite=unknown; demo_with=unknown; demo_without=unknown
git apply $PATCH 2>$W/apply.err || applies=false
if $applies; then
  (cd kernel && go test -vet=off -count=1 ./... 2>&1) > $W/suite.log
  # (kernel/goruntime does not link with this toolchain on the pinned tree either: not counted)
  if grep -v "kernel/goruntime" $W/suite.log | grep -q "^FAIL[[:space:]]\|^--- FAIL\|^panic:"; then suite=fails; else suite=passes; fi
  cp $SRC/zz_demo_test.go kernel/$PKG/zz_demo_test.go
  (cd kernel && go test -vet=off -count=1 -timeout 120s ./$PKG/ 2>&1) > $W/demo_with.log
  if grep -q "^ok" $W/demo_with.log; then demo_with=passes; else demo_with=fails; fi
  rm kernel/$PKG/zz_demo_test.go
  # the check, against the changed tree
  GOVC_OUT=$W/out timeout 1500 /verif/bin/govc check -repo $W/wt -p $ID > $W/check.log 2>&1; rc=$?
  git apply -R $PATCH
  cp $SRC/zz_demo_test.go kernel/$PKG/zz_demo_test.go
  (cd kernel && go test -vet=off -count=1 -timeout 120s ./$PKG/ 2>&1) > $W/demo_without.log
  if grep -q "^ok" $W/demo_without.log; then demo_without=passes; else demo_without=fails; fi
else
  rc=-1
fi
OUT=/verif/seeded/$ID/$V; mkdir -p $OUT
cp $PATCH $OUT/patch.diff; cp $SRC/zz_demo_test.go $OUT/demo_test.go.txt; cp $SRC/notes.md $OUT/notes.md
viol=$(grep -c "^VIOLATION" $W/check.log 2>/dev/null)
confirmed=$(grep "^VIOLATION" $W/check.log 2>/dev/null | grep -v "no-failing-input-found" | sed 's|.*replays/[A-Z0-9]*/||; s|\.json.*||' | tr '\n' ' ')
# keep the generated replay tests of confirmed counterexamples
for c in $confirmed; do cp "$W/out/replays/$ID/${c}_replay_test.go" "/verif/seeded/$ID/$V/replay_$(echo $c | tr -c 'A-Za-z0-9_.\n' '_' | cut -c1-80)_test.go.txt" 2>/dev/null; done
obls=$(grep "^VIOLATION" $W/check.log 2>/dev/null | sed 's|.*replays/[A-Z0-9]*/||; s|\.json.*||' | head -6 | tr '\n' ' ')
und=$(grep "^UNDECIDED" $W/check.log 2>/dev/null | cut -c1-300)
python3 - "$ID" "$V" "$PKG" "$applies" "$suite" "$demo_with" "$demo_without" "$rc" "$viol" "$obls" "$und" "$OUT" "$(basename $PATCH)" "$confirmed" <<'PY'
import json,sys
id,v,pkg,applies,suite,dw,dwo,rc,viol,obls,und,out,pname,confirmed=sys.argv[1:]
notes=open(out+'/notes.md').read()
def section(*names):
    import re
    for n in names:
        m=re.search(r'^#+\s*[^\n]*'+n+r'[^\n]*\n(.*?)(?=^#+\s|\Z)',notes,re.S|re.M|re.I)
        if m: return ' '.join(m.group(1).split())[:900]
    return ''
valid = applies=='true' and suite=='passes' and dw=='fails' and dwo=='passes'
meta={"property":id,"variant":v,"source":"independent sub-agent given only the property text and a scratch worktree (no access to /verif)",
 "what_changes":section('change'),"needs_to_manifest":section('needs','manifest'),
 "demonstration":{"file":"demo_test.go.txt (copy to kernel/%s/zz_demo_test.go)"%pkg,"fails_with_change":dw=='fails',"passes_without_change":dwo=='passes'},
 "validated":{"patch_applies_to_repo_head":applies=='true',"existing_suite_with_change":suite,"confirmed":valid,"rebased_after_fix_commits":pname!='patch.diff'},
 "what_was_run":["git worktree of /repo HEAD in /root/scratch (removed afterwards)","git apply patch.diff","cd kernel && go test -vet=off -count=1 ./...  (existing suite with the change)","go test ./%s/ with the demonstration, with and without the change"%pkg,"GOVC_OUT=<scratch> /verif/bin/govc check -repo <worktree> -p %s"%id],
 "check_result":{"exit_code":int(rc),"violation_lines":int(viol or 0),"failed_obligations":obls.split(),"undecided":und,"detected":int(rc)==1 and int(viol or 0)>0,"counterexamples_replayed_on_real_code":confirmed.split()}}
json.dump(meta,open(out+'/meta.json','w'),indent=1)
print(id,v,"valid" if valid else "NOT-CONFIRMED(applies=%s suite=%s demo_with=%s demo_without=%s)"%(applies,suite,dw,dwo),"detected" if meta['check_result']['detected'] else "NOT-DETECTED rc=%s %s"%(rc,und[:120]))
PY
cd /; git -C /repo worktree remove --force $W/wt; rm -rf $W
