#!/bin/bash
# recheck_corpus.sh [jobs]: re-runs every stored seeded change against the current contracts and
# engine (scratch worktrees of /repo HEAD, removed afterwards) and prints one line per change.
# Used after engine or contract changes to see that no detection was lost.
J=${1:-3}
cd /verif
ls -d seeded/*/*/ | while read d; do
  id=$(echo $d | cut -d/ -f2); v=$(echo $d | cut -d/ -f3)
  echo "$id $v"
done | xargs -P $J -L 1 bash -c '
  id=$0; v=$1
  W=/root/scratch/rc.$id.$v; rm -rf $W; mkdir -p $W
  git -C /repo worktree add -q --detach $W/wt HEAD 2>/dev/null || { echo "$id $v worktree-failed"; exit 0; }
  if (cd $W/wt && git apply /verif/seeded/$id/$v/patch.diff 2>/dev/null); then
    GOVC_OUT=$W/out timeout 1500 /verif/bin/govc check -repo $W/wt -p $id > $W/log 2>&1; rc=$?
    n=$(grep -c "^VIOLATION" $W/log); u=$(grep -c "^UNDECIDED" $W/log)
    echo "$id $v rc=$rc violations=$n undecided=$u"
  else
    echo "$id $v patch-does-not-apply"
  fi
  git -C /repo worktree remove --force $W/wt 2>/dev/null; rm -rf $W
'
git -C /repo worktree prune
