#!/usr/bin/env python3
"""core.py q.smt2: print the unsat core of a query (which hypotheses make it unsat)"""
import sys,subprocess,re
s=open(sys.argv[1]).read().split('\n')
out=['(set-option :produce-unsat-cores true)']
names={}
k=0
for l in s:
    if l.startswith('(assert '):
        k+=1; n='a%d'%k; names[n]=l
        out.append('(assert (! %s :named %s))'%(l[8:-1],n))
    elif l.startswith('(get-model'): pass
    elif l.startswith('(check-sat'):
        out.append(l); out.append('(get-unsat-core)')
    elif 'produce-models' in l: pass
    else: out.append(l)
open('/tmp/core.smt2','w').write('\n'.join(out))
r=subprocess.run(['z3-new','-T:60','/tmp/core.smt2'],capture_output=True,text=True).stdout
print(r.split('\n')[0])
core=re.findall(r'a\d+',r.split('\n',1)[1] if '\n' in r else '')
for n in core: print(n, names[n][:int(sys.argv[2]) if len(sys.argv)>2 else 300])
