#!/bin/bash
# fourth corpus round (variants g, h; six properties): /root/scratch/mutants4/<id>.out/<v>/ ; skips what is already stored
cd /verif
ls -d /root/scratch/mutants4/C*.out/[gh] | while read d; do
  id=$(echo $d | sed 's|.*/\(C[0-9]*\)\.out/.*|\1|'); v=$(basename $d)
  [ -f $d/patch.diff ] && [ -f $d/zz_demo_test.go ] && [ -f $d/notes.md ] && [ ! -f /verif/seeded/$id/$v/meta.json ] && echo "$id $v $d"
done > /root/scratch/seed_jobs4.txt
cat /root/scratch/seed_jobs4.txt | xargs -P 2 -L 1 tools/seed_one.sh
