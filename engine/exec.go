package main

// Symbolic execution of go/ssa, path based, cut at loop back edges.

import (
	"fmt"
	"go/ast"
	"go/constant"
	"go/token"
	"go/types"
	"math/big"
	"sort"
	"strings"

	"golang.org/x/tools/go/ssa"
)

const maxPaths = 20000

func (s *state) get(v ssa.Value) Val {
	if x, ok := s.vals[v]; ok {
		return x
	}
	u := s.u
	switch d := v.(type) {
	case *ssa.Const:
		return s.constVal(d)
	case *ssa.Global:
		return Val{T: d.Type(), S: []string{fmt.Sprint(u.eng.globalID(d)), u.m.offConst(0)}}
	case *ssa.Function:
		return Val{T: d.Type(), S: []string{fmt.Sprint(u.eng.funcID(d))}}
	case *ssa.Parameter, *ssa.FreeVar:
		x := s.symVal(v.Name(), v.Type())
		s.vals[v] = x
		return x
	case *ssa.Builtin:
		return Val{T: d.Type(), S: []string{"0"}}
	}
	if s.cutMode {
		if _, isInstr := v.(ssa.Instruction); isInstr {
			x := s.symVal("pre_"+v.Name(), v.Type())
			if len(x.S) >= 2 && mustBeRaw(v, map[ssa.Value]bool{}) {
				x.S[0] = rawRef
			}
			s.vals[v] = x
			return x
		}
	}
	panic(engineErr(fmt.Sprintf("no value for %s (%T) in %s", v.Name(), v, s.curFn)))
}

func (s *state) constVal(c *ssa.Const) Val {
	t := c.Type()
	u := s.u
	if c.Value == nil {
		return u.m.zeroVal(t)
	}
	switch c.Value.Kind() {
	case constant.Bool:
		return Val{T: t, S: []string{fmt.Sprint(constant.BoolVal(c.Value))}}
	case constant.Int:
		bi, _ := new(big.Int).SetString(c.Value.ExactString(), 10)
		if !isInteger(t) {
			// unsafe.Pointer(uintptr(k)) folded to a constant: a raw pointer
			return Val{T: t, S: []string{rawRef, u.m.intConst(bi, 64)}}
		}
		return Val{T: t, S: []string{u.m.intConst(bi, width(t))}}
	case constant.String:
		v := s.stringConst(constant.StringVal(c.Value))
		v.T = t
		return v
	}
	panic(engineErr("unsupported constant " + c.String()))
}

// ---- obligations -----------------------------------------------------------------

func (s *state) site(in ssa.Instruction) string {
	b := in.Block()
	for i, x := range b.Instrs {
		if x == in {
			return fmt.Sprintf("%s:b%di%d", funcKey(b.Parent()), b.Index, i)
		}
	}
	return funcKey(b.Parent())
}

func (s *state) oblige(kind, label, clause, goal string, pos token.Pos, site string, deep bool) {
	if goal == "true" {
		// still count it: trivially discharged by construction
	}
	u := s.u
	name := fmt.Sprintf("%s#%s", u.name(), kind)
	if label != "" {
		name += "." + label
	}
	if site != "" {
		name += "@" + site
	}
	o := &oblig{name: name, kind: kind, clause: clause, pos: u.eng.posStr(pos), pc: append([]string(nil), s.pc...), goal: goal, hints: append([]string(nil), s.hints...), deep: deep, path: u.npaths}
	o.cands = append(o.cands, s.cands...)
	for k, v := range s.ghost {
		if strings.HasPrefix(k, "L_") && len(v.S) == 1 {
			srt := u.m.leaves(v.T)[0].sort
			o.cands = append(o.cands, binder{v.S[0], srt})
			if isInteger(v.T) {
				one := u.arith(token.ADD, v, Val{K: big.NewInt(1)}, nil)
				o.cands = append(o.cands, binder{one.S[0], srt})
			}
		}
	}
	s.attachKnown(o)
	u.obligs = append(u.obligs, o)
}

func (u *unit) name() string {
	if u.lemma != nil {
		return strings.TrimPrefix(u.lemma.pkgPath, modPrefix+"/") + ".lemma " + u.lemma.name
	}
	p := u.fn.Pkg.Pkg.Path()
	p = strings.TrimPrefix(p, modPrefix+"/")
	return p + "." + funcKey(u.fn)
}

func (s *state) safety(kind, goal string, in ssa.Instruction) {
	if goal == "true" {
		return
	}
	if s.u.ct != nil && s.u.ct.partial {
		s.u.notes["partial contract: run-time safety checks (nil, bounds, type assertions, explicit panics) of "+s.u.name()+" are assumed, not proved"] = true
		s.pc = append(s.pc, goal)
		return
	}
	s.oblige(kind, "", "automatic safety obligation: "+kind, goal, in.Pos(), s.site(in), false)
	// after the check the property holds on the continuing path
	s.pc = append(s.pc, goal)
}

// ---- entry --------------------------------------------------------------------------

func (u *unit) run() {
	s := &state{u: u, vals: map[ssa.Value]Val{}, heaps: map[string]string{}, hsort: map[string]string{}, names: map[string]nameBinding{},
		visits: map[*ssa.BasicBlock]int{}, inLoop: map[*ssa.BasicBlock]*loopCtx{}, ghost: map[string]Val{}, curFn: u.fn}
	for _, p := range u.fn.Params {
		v := s.get(p)
		if u.ct != nil && u.ct.rawParams[p.Name()] {
			v.S[0] = rawRef
			s.vals[p] = v
		}
		s.names[p.Name()] = nameBinding{v: p}
	}
	var fvRefs []string
	for _, fv := range u.fn.FreeVars {
		v := s.get(fv)
		s.names[fv.Name()] = nameBinding{v: fv, isAddr: true}
		// a captured variable that the enclosing function initialises with a constant and
		// that nothing ever writes again holds that constant
		if c := constCaptured(u.fn, fv); c != nil {
			pt := fv.Type().Underlying().(*types.Pointer)
			cur := s.scratch().loadPtr(v, pt.Elem())
			cv := s.constVal(c)
			if cv.K != nil {
				cv = u.mat(cv, pt.Elem())
			}
			if len(cur.S) == 1 && len(cv.S) == 1 {
				s.pc = append(s.pc, eq(cur.S[0], cv.S[0]))
			}
		}
		// captured variables are distinct allocated cells
		if len(v.S) == 2 {
			s.pc = append(s.pc, fmt.Sprintf("(> %s 0)", v.S[0]), eq(v.S[1], u.m.offConst(0)))
			for _, o := range fvRefs {
				s.pc = append(s.pc, not(eq(o, v.S[0])))
			}
			fvRefs = append(fvRefs, v.S[0])
		}
	}
	s.old = nil
	e := s.contractEnv(u.ct, u.fn, nil, nil)
	e.useNames = true
	for _, c := range u.ct.requires {
		if !c.active() {
			continue
		}
		e.what = fmt.Sprintf("%s requires %q", u.name(), c.src)
		s.pc = append(s.pc, e.evalBool(c.e))
	}
	s.old = s.snapshot()
	// site clauses whose program point no longer exists: an assertion there can no longer be
	// established (fails by name); ghost updates and hints are dropped with a note
	for _, ss := range u.ct.sites {
		if siteExists(u.fn, ss.site) {
			continue
		}
		for i, c := range ss.clauses {
			if c.kind == "assert" {
				s.oblige("assert", clauseLabel(c, i), c.src+"  [the program point `"+ss.site+"` no longer exists in "+u.name()+"]", "false", u.fn.Pos(), "missing:"+strings.ReplaceAll(ss.site, " ", "_"), false)
			} else {
				u.notes["site clause dropped, `"+ss.site+"` no longer exists: "+c.src] = true
				fmt.Println("note: site clause dropped, `" + ss.site + "` no longer exists in " + u.name() + ": " + c.src)
			}
		}
	}
	// vacuity cover: the precondition must be satisfiable
	u.covers = append(u.covers, &oblig{name: u.name() + "#cover.requires", kind: "cover", pc: append([]string(nil), s.pc...), goal: "false", clause: "precondition satisfiable"})
	if len(u.fn.Blocks) == 0 {
		panic(engineErr("function " + u.name() + " has no body"))
	}
	u.entryPC = append([]string(nil), s.pc...)
	u.entryVals = map[ssa.Value]Val{}
	for k, v := range s.vals {
		u.entryVals[k] = v
	}
	u.entryOld = s.old
	entryNames := map[string]nameBinding{}
	for k, v := range s.names {
		entryNames[k] = v
	}
	s.runSite(u.fn, "entry", u.fn.Pos(), nil)
	u.entryPC = append([]string(nil), s.pc...) // includes the lemma instances assumed at entry
	s.exec(u.fn.Blocks[0], nil, 0)
	// loops marked `cutpoint`: explore each once from a generic state
	for n := 0; ; n++ {
		var hdr *ssa.BasicBlock
		for _, b := range u.fn.Blocks {
			if u.cutHeaders[b] && !u.cutDone[b] {
				hdr = b
				break
			}
		}
		if hdr == nil {
			break
		}
		u.cutDone[hdr] = true
		c := &state{u: u, vals: map[ssa.Value]Val{}, heaps: map[string]string{}, hsort: s.hsort, names: map[string]nameBinding{},
			visits: map[*ssa.BasicBlock]int{}, inLoop: map[*ssa.BasicBlock]*loopCtx{}, ghost: map[string]Val{}, curFn: u.fn,
			gen: fmt.Sprintf("c%d", hdr.Index), cutMode: true, cutStart: true, old: u.entryOld}
		for k, v := range u.entryVals {
			c.vals[k] = v
		}
		c.pc = append([]string(nil), u.entryPC...)
		for k, v := range entryNames {
			c.names[k] = v
		}
		// names of variables defined in blocks that dominate the header
		for _, b := range u.fn.Blocks {
			if b != hdr && b.Dominates(hdr) {
				for _, in := range b.Instrs {
					switch d := in.(type) {
					case *ssa.Phi:
						if d.Comment != "" {
							c.names[d.Comment] = nameBinding{v: d}
						}
					case *ssa.DebugRef:
						if id, ok := d.Expr.(*ast.Ident); ok && u.eng.isLocalVar(u.fn, id) {
							c.names[id.Name] = nameBinding{v: d.X, isAddr: d.IsAddr}
						}
					}
				}
			}
		}
		// enter the header through its (first) non-back edge
		var pred *ssa.BasicBlock
		for _, p := range hdr.Preds {
			if !hdr.Dominates(p) {
				pred = p
				break
			}
		}
		if pred == nil {
			panic(engineErr("cut loop without entry edge"))
		}
		// phis and every value defined before the loop are generic
		for _, in := range hdr.Instrs {
			p, ok := in.(*ssa.Phi)
			if !ok {
				break
			}
			c.vals[p] = c.symVal(p.Name()+"_"+p.Comment, p.Type())
			if p.Comment != "" {
				c.names[p.Comment] = nameBinding{v: p}
			}
		}
		c.enterCut(hdr)
	}
}

// contractEnv builds the evaluation environment for fc's clauses: parameter
// names (from the declaration and from the contract header) bound to args.
func (s *state) contractEnv(fc *funcContract, fn *ssa.Function, args []Val, results []Val) *env {
	u := s.u
	var pkg *types.Package
	if fn != nil && fn.Pkg != nil {
		pkg = fn.Pkg.Pkg
	} else if fc != nil {
		pkg = u.eng.typesPkg(fc.pkgPath)
	}
	if fc != nil && fn != nil && fn.Pkg != nil && fc.pkgPath != "" && fc.pkgPath != fn.Pkg.Pkg.Path() {
		// an assumed contract for a function of another package: names resolve in the
		// package whose contract file states it
		if p := u.eng.typesPkg(fc.pkgPath); p != nil {
			pkg = p
		}
	}
	e := &env{u: u, st: s, old: s.old, vars: map[string]Val{}, pkg: pkg}
	if fc != nil && fn != nil && len(fn.FreeVars) > 0 {
		// a closure under contract: its captured variables by name
		e.free = map[string]Val{}
		for i, fv := range fn.FreeVars {
			if s.cvBinds != nil && i < len(s.cvBinds) {
				e.free[fv.Name()] = s.cvBinds[i]
			} else if fn == u.fn {
				if v, ok := u.entryVals[fv]; ok {
					e.free[fv.Name()] = v
				} else {
					e.free[fv.Name()] = s.get(fv)
				}
			}
		}
	}
	if fn != nil && args != nil {
		for i, p := range fn.Params {
			if i < len(args) {
				e.vars[p.Name()] = args[i]
			}
		}
	}
	if fc != nil && fc.decl != nil && args != nil {
		i := 0
		if fc.decl.Recv != nil && !(fn != nil && fn.Parent() != nil) {
			// (the header of a closure inside a method names the method's receiver type only
			// to identify the closure: the receiver is not an argument of the closure)
			for _, f := range fc.decl.Recv.List {
				for _, n := range f.Names {
					if i < len(args) {
						e.vars[n.Name] = args[i]
					}
				}
				i++
			}
		}
		for _, f := range fc.decl.Type.Params.List {
			if len(f.Names) == 0 {
				i++
				continue
			}
			for _, n := range f.Names {
				if i < len(args) {
					e.vars[n.Name] = args[i]
				}
				i++
			}
		}
	}
	if results != nil {
		var names []string
		if fc != nil && fc.decl != nil && fc.decl.Type.Results != nil {
			for _, f := range fc.decl.Type.Results.List {
				if len(f.Names) == 0 {
					names = append(names, "")
				}
				for _, n := range f.Names {
					names = append(names, n.Name)
				}
			}
		}
		if fn != nil {
			rs := fn.Signature.Results()
			for i := 0; i < rs.Len(); i++ {
				if i >= len(names) {
					names = append(names, rs.At(i).Name())
				} else if names[i] == "" {
					names[i] = rs.At(i).Name()
				}
			}
		}
		for i, r := range results {
			if i < len(names) && names[i] != "" && names[i] != "_" {
				e.vars[names[i]] = r
			}
		}
		if len(results) == 1 {
			e.vars["result"] = results[0]
		}
	}
	return e
}

// ---- execution ------------------------------------------------------------------------

func (s *state) exec(b *ssa.BasicBlock, pred *ssa.BasicBlock, start int) {
	if start == 0 {
		// phis, resolved by the incoming edge
		type pv struct {
			p *ssa.Phi
			v Val
		}
		var phis []pv
		for _, in := range b.Instrs {
			p, ok := in.(*ssa.Phi)
			if !ok {
				break
			}
			for i, pr := range b.Preds {
				if pr == pred {
					phis = append(phis, pv{p, s.get(p.Edges[i])})
					break
				}
			}
		}
		for _, x := range phis {
			s.vals[x.p] = x.v
			if x.p.Comment != "" {
				s.names[x.p.Comment] = nameBinding{v: x.p}
			}
		}
		if pred != nil {
			// edges that leave a loop: `at exit loop k` clauses
			for _, li := range loopsOf(b.Parent()) {
				if li.blocks[pred] && !li.blocks[b] {
					pos := b.Parent().Pos()
					if len(pred.Instrs) > 0 {
						pos = pred.Instrs[len(pred.Instrs)-1].Pos()
					}
					s.runSite(b.Parent(), fmt.Sprintf("exit loop %d", li.ord), pos, nil)
				}
			}
		}
		if pred != nil && isLoopHeader(b) {
			if !s.loopHeader(b, pred) {
				return
			}
		}
	}
	for ii := start; ii < len(b.Instrs); ii++ {
		in := b.Instrs[ii]
		if !s.step(b, ii, in) {
			return
		}
	}
}

func (s *state) endPath() { s.u.npaths++ }

// constCaptured: fv is a captured variable of closure fn whose only store anywhere (enclosing
// function and all its closures) is the initialisation with a constant; returns that constant
func constCaptured(fn *ssa.Function, fv *ssa.FreeVar) *ssa.Const {
	parent := fn.Parent()
	if parent == nil {
		return nil
	}
	idx := -1
	for i, f := range fn.FreeVars {
		if f == fv {
			idx = i
		}
	}
	var cell ssa.Value
	for _, b := range parent.Blocks {
		for _, in := range b.Instrs {
			if mc, ok := in.(*ssa.MakeClosure); ok && mc.Fn == fn && idx >= 0 && idx < len(mc.Bindings) {
				cell = mc.Bindings[idx]
			}
		}
	}
	al, ok := cell.(*ssa.Alloc)
	if !ok {
		return nil
	}
	var only *ssa.Const
	stores := 0
	// aliases of the cell: the Alloc itself in the parent, and the free variables bound to it
	alias := map[ssa.Value]bool{al: true}
	fns := append([]*ssa.Function{parent}, parent.AnonFuncs...)
	for _, b := range parent.Blocks {
		for _, in := range b.Instrs {
			if mc, ok := in.(*ssa.MakeClosure); ok {
				if cf, ok := mc.Fn.(*ssa.Function); ok {
					for i, bnd := range mc.Bindings {
						if bnd == al && i < len(cf.FreeVars) {
							alias[cf.FreeVars[i]] = true
						}
					}
				}
			}
		}
	}
	for _, f := range fns {
		for _, b := range f.Blocks {
			for _, in := range b.Instrs {
				switch d := in.(type) {
				case *ssa.Store:
					if alias[d.Addr] {
						stores++
						if c, ok := d.Val.(*ssa.Const); ok && f == parent {
							only = c
						} else {
							only = nil
							stores += 100
						}
					}
				case *ssa.MakeClosure, *ssa.UnOp, *ssa.DebugRef:
					// binding into a closure, loads: fine
				default:
					// any other use of the cell's address (passed along, stored) makes it mutable
					for _, op := range in.Operands(nil) {
						if *op != nil && alias[*op] {
							stores += 100
						}
					}
				}
			}
		}
	}
	if stores == 1 && only != nil {
		return only
	}
	return nil
}

// loopSpecFor: the loop clauses for loop ord of fn - for an inlined callee the ones the unit's
// contract gives (`loop Callee.k ...`), otherwise the function's own
func (u *unit) loopSpecFor(fn *ssa.Function, ord int) *loopSpec {
	if fn != u.fn && u.ct != nil && u.ct.inlLoops != nil {
		if m := u.ct.inlLoops[funcKey(fn)]; m != nil {
			if ls := m[ord]; ls != nil {
				return ls
			}
		}
	}
	if fc := u.eng.contractFor(fn); fc != nil {
		return fc.loops[ord]
	}
	return nil
}

// enterCut starts the exploration of a cut loop from a generic state: the
// invariant is assumed for arbitrary values of everything defined before
func (s *state) enterCut(b *ssa.BasicBlock) {
	u := s.u
	fn := b.Parent()
	li := loopFor(fn, b)
	spec := u.loopSpecFor(fn, li.ord)
	u.curLoopSpec = spec
	defer func() { u.curLoopSpec = nil }()
	e := s.contractEnv(nil, fn, nil, nil)
	e.useNames = true
	e.pkg = fn.Pkg.Pkg
	pos := b.Instrs[0].Pos()
	if li.stmt != nil {
		pos = li.stmt.Pos()
	}
	site := fmt.Sprintf("%s:loop%d", funcKey(fn), li.ord)
	lc := &loopCtx{}
	for _, g := range spec.ghosts {
		e.what = "loop ghost " + g.src
		t := types.Type(types.Typ[types.Uintptr])
		if v0 := (&env{u: u, st: s.scratchFull(), old: s.old, pkg: e.pkg, vars: map[string]Val{}, what: e.what}); v0 != nil {
			_ = v0
		}
		if tt, ok := u.ghostTypes["L_"+g.label]; ok {
			t = tt
		}
		nv := s.symVal("ghost_"+g.label, t)
		s.ghost["L_"+g.label] = nv
		s.cands = append(s.cands, binder{nv.S[0], u.m.leaves(nv.T)[0].sort})
	}
	lc.pre = s.snapshot()
	s.curLoopPre = nil
	for _, c := range spec.invs {
		e.what = fmt.Sprintf("%s loop %d invariant %q", funcKey(fn), li.ord, c.src)
		s.pc = append(s.pc, e.evalBool(c.e))
	}
	if spec.decr != nil {
		e.what = "decreases"
		v := u.mat(e.eval(spec.decr.e), nil)
		lc.measure = []string{v.S[0]}
		lc.mtypes = []types.Type{v.T}
	}
	for _, uc := range spec.uses {
		for _, x := range uc.exprs {
			e.what = "loop use " + uc.src
			s.useHint(e, x, pos, site)
		}
	}
	s.inLoop[b] = lc
	s.cutStart = false
	// execute the header block after its phis
	start := 0
	for start < len(b.Instrs) {
		if _, ok := b.Instrs[start].(*ssa.Phi); !ok {
			break
		}
		start++
	}
	s.exec(b, nil, start)
}

func (s *state) scratchFull() *state { return s.scratch() }

// loopHeader handles arrival at a loop header; returns false if the path ends
func (s *state) loopHeader(b, pred *ssa.BasicBlock) bool {
	u := s.u
	fn := b.Parent()
	li := loopFor(fn, b)
	spec := u.loopSpecFor(fn, li.ord)
	u.curLoopSpec = spec
	defer func() { u.curLoopSpec = nil }()
	back := b.Dominates(pred)
	if spec != nil && spec.unroll > 0 {
		if !back {
			s.visits[b] = 0
		}
		s.visits[b]++
		if s.visits[b] > spec.unroll+1 {
			s.oblige("unwind", fmt.Sprintf("loop%d", li.ord), fmt.Sprintf("loop %d of %s runs at most %d iterations", li.ord, funcKey(fn), spec.unroll), "false", b.Instrs[0].Pos(), funcKey(fn), false)
			s.endPath()
			return false
		}
		return true
	}
	var invs []*clause
	if spec != nil {
		invs = spec.invs
	}
	e := s.contractEnv(nil, fn, nil, nil)
	e.useNames = true
	e.pkg = fn.Pkg.Pkg
	site := fmt.Sprintf("%s:loop%d", funcKey(fn), li.ord)
	pos := b.Instrs[0].Pos()
	if li.stmt != nil {
		pos = li.stmt.Pos()
	}
	if !back && spec != nil {
		for _, g := range spec.ghosts {
			e.what = "loop ghost " + g.src
			v := e.eval(g.e)
			if v.K != nil {
				v = u.mat(v, types.Typ[types.Uintptr])
			}
			u.ghostTypes["L_"+g.label] = v.T
			s.ghost["L_"+g.label] = v
		}
	}
	if back && spec != nil {
		lc0 := s.inLoop[b]
		if lc0 != nil {
			s.curLoopPre = lc0.pre
		}
		for _, g := range spec.steps {
			e.what = "loop step " + g.src
			old := s.ghost["L_"+g.label]
			v := e.eval(g.e)
			if v.K != nil {
				v = u.mat(v, old.T)
			}
			v.T = old.T
			s.ghost["L_"+g.label] = v
		}
	}
	if !back {
		for i, c := range invs {
			e.what = fmt.Sprintf("%s loop %d invariant %q", funcKey(fn), li.ord, c.src)
			s.curLoopPre = s
			s.oblige("inv-entry", clauseLabel(c, i), c.src, e.evalBool(c.e), pos, site, c.deep)
		}
		if spec != nil && spec.cut && !s.cutStart {
			// cut point: this path ends; the loop is explored once from a generic state
			if len(s.frames) > 0 {
				panic(engineErr("cutpoint loops inside inlined callees are not supported: " + site))
			}
			s.curLoopPre = nil
			u.cutHeaders[b] = true
			s.endPath()
			return false
		}
		s.cutStart = false
		lc := &loopCtx{pre: s.snapshot()}
		// havoc
		ms := s.loopMods(li)
		for _, in := range b.Instrs {
			p, ok := in.(*ssa.Phi)
			if !ok {
				break
			}
			nv := s.symVal(p.Name()+"_"+p.Comment, p.Type())
			if len(nv.S) >= 2 && mustBeRaw(p, map[ssa.Value]bool{}) {
				nv.S[0] = rawRef // every incoming value is an integer-made pointer
			}
			s.vals[p] = nv
		}
		oldHeaps := map[string]string{}
		for k, v := range s.heaps {
			oldHeaps[k] = v
		}
		s.applyHavoc(ms)
		s.keepUntouchedLocals(li, oldHeaps)
		if spec != nil {
			for _, g := range spec.ghosts {
				stepped := false
				for _, st := range spec.steps {
					if st.label == g.label {
						stepped = true
					}
				}
				if !stepped {
					continue // a ghost without a step clause is a snapshot taken at loop entry
				}
				old := s.ghost["L_"+g.label]
				nv := s.symVal("ghost_"+g.label, old.T)
				s.ghost["L_"+g.label] = nv
				if len(nv.S) == 1 {
					s.cands = append(s.cands, binder{nv.S[0], u.m.leaves(nv.T)[0].sort})
				}
			}
		}
		s.curLoopPre = lc.pre
		for _, c := range invs {
			e.what = fmt.Sprintf("%s loop %d invariant %q", funcKey(fn), li.ord, c.src)
			s.pc = append(s.pc, e.evalBool(c.e))
		}
		if spec != nil && spec.decr != nil {
			e.what = "decreases"
			v := u.mat(e.eval(spec.decr.e), nil)
			lc.measure = []string{v.S[0]}
			lc.mtypes = []types.Type{v.T}
		}
		if spec != nil {
			for _, uc := range spec.uses {
				for _, x := range uc.exprs {
					e.what = "loop use " + uc.src
					s.useHint(e, x, pos, site)
				}
			}
		}
		s.curLoopPre = nil
		s.inLoop[b] = lc
		return true
	}
	lc := s.inLoop[b]
	if lc == nil {
		panic(engineErr("back edge into loop without entry: " + site))
	}
	s.curLoopPre = lc.pre
	if spec != nil {
		for _, uc := range spec.backUses {
			for _, x := range uc.exprs {
				e.what = "loop backedge use " + uc.src
				s.useHint(e, x, pos, site+":back")
			}
		}
	}
	for i, c := range invs {
		e.what = fmt.Sprintf("%s loop %d invariant %q", funcKey(fn), li.ord, c.src)
		s.oblige("inv-preserved", clauseLabel(c, i), c.src, e.evalBool(c.e), pos, site, c.deep)
	}
	if spec != nil && spec.decr != nil {
		e.what = "decreases"
		v := u.mat(e.eval(spec.decr.e), nil)
		lt := u.arith(token.LSS, v, Val{T: lc.mtypes[0], S: lc.measure}, nil)
		goal := lt.S[0]
		if isSigned(v.T) {
			ge := u.arith(token.GEQ, Val{T: lc.mtypes[0], S: lc.measure}, Val{K: big.NewInt(0)}, nil)
			goal = and(goal, ge.S[0])
		}
		s.oblige("decreases", fmt.Sprintf("loop%d", li.ord), spec.decr.src, goal, pos, site, false)
	}
	s.curLoopPre = nil
	s.endPath()
	return false
}

func clauseLabel(c *clause, i int) string {
	if c.label != "" {
		return c.label
	}
	return fmt.Sprint(i + 1)
}

// ---- havoc sets --------------------------------------------------------------------------

type modSet struct {
	all   bool
	heaps map[string]bool // heap base names, havocked entirely
	cells map[ssa.Value]types.Type
}

// keepUntouchedLocals: havoc is by heap (element type or field), which also wipes the storage of
// local variables that live in those heaps (a local array, a local struct). A local whose address
// is never taken explicitly (ssa: not Heap) can only change through stores that name it; if the
// loop has none, its contents are the same after the havoc.
func (s *state) keepUntouchedLocals(li *loopInfo, oldHeaps map[string]string) {
	fn := li.header.Parent()
	for _, a := range fn.Locals {
		if a.Heap {
			continue
		}
		pv, ok := s.vals[a]
		if !ok || len(pv.S) < 1 {
			continue
		}
		if _, lit := intLit(pv.S[0]); !lit {
			continue
		}
		written := false
		for b := range li.blocks {
			for _, in := range b.Instrs {
				switch d := in.(type) {
				case *ssa.Store:
					if rootAlloc(d.Addr) == a {
						written = true
					}
				case ssa.CallInstruction:
					for _, arg := range d.Common().Args {
						if rootAlloc(arg) == a {
							written = true
						}
					}
				}
			}
		}
		if written {
			continue
		}
		for name, nw := range s.heaps {
			if od, ok := oldHeaps[name]; ok && od != nw && name != "M" && !strings.HasPrefix(name, "G_") {
				s.pc = append(s.pc, fmt.Sprintf("(= (select %s %s) (select %s %s))", nw, pv.S[0], od, pv.S[0]))
			}
		}
	}
}

// rootAlloc: the local variable an address is derived from by field / index selection
func rootAlloc(v ssa.Value) *ssa.Alloc {
	for i := 0; i < 16; i++ {
		switch d := v.(type) {
		case *ssa.Alloc:
			return d
		case *ssa.IndexAddr:
			v = d.X
		case *ssa.FieldAddr:
			v = d.X
		case *ssa.Slice:
			v = d.X
		default:
			return nil
		}
	}
	return nil
}

func (s *state) applyHavoc(ms *modSet) {
	if ms.all {
		for _, h := range s.heapNames() {
			s.havocHeap(h)
		}
		for k, t := range s.u.ghostTypes {
			if strings.HasPrefix(k, "G_") {
				s.havocGhost(k, t)
			}
		}
		return
	}
	for _, h := range s.heapNames() {
		base := h
		if i := strings.Index(h, "."); i >= 0 {
			base = h[:i]
		}
		if ms.heaps[base] {
			s.havocHeap(h)
		}
	}
	for k := range ms.heaps {
		if strings.HasPrefix(k, "G_") {
			s.havocGhost(k, s.u.ghostTypes[k])
		}
	}
	for c, t := range ms.cells {
		p := s.get(c)
		if isInlineField(t) {
			// whole object: havoc by heaps
			for _, hb := range heapBasesOfType(t) {
				for _, h := range s.heapNames() {
					if h == hb || strings.HasPrefix(h, hb+".") {
						s.havocHeap(h)
					}
				}
			}
			continue
		}
		s.storeAt(t, p.S[0], p.S[1], nil, s.symValNoFacts("hv_"+c.Name(), t))
	}
}

func (s *state) symValNoFacts(prefix string, t types.Type) Val {
	var v []string
	for _, l := range s.u.m.leaves(t) {
		v = append(v, s.u.newSym(prefix+l.path, l.sort))
	}
	return Val{T: t, S: v}
}

func heapBasesOfType(t types.Type) []string {
	switch u := t.Underlying().(type) {
	case *types.Struct:
		var out []string
		for i := 0; i < u.NumFields(); i++ {
			f := u.Field(i)
			if isInlineField(f.Type()) {
				out = append(out, heapBasesOfType(f.Type())...)
			} else {
				out = append(out, "H_"+tname(t)+"_"+f.Name())
			}
		}
		return out
	case *types.Array:
		return heapBasesOfType(u.Elem())
	}
	return []string{"E_" + tname(t)}
}

func storeBases(addr ssa.Value, t types.Type) []string {
	if fa, ok := addr.(*ssa.FieldAddr); ok {
		st := fa.X.Type().Underlying().(*types.Pointer).Elem()
		f := st.Underlying().(*types.Struct).Field(fa.Field)
		if !isInlineField(f.Type()) {
			return []string{"H_" + tname(st) + "_" + f.Name()}
		}
	}
	return heapBasesOfType(t)
}

func mayBeRaw(v ssa.Value, depth int) bool {
	if depth > 12 {
		return true
	}
	switch d := v.(type) {
	case *ssa.Convert:
		if b, ok := d.X.Type().Underlying().(*types.Basic); ok && b.Kind() == types.Uintptr {
			return true
		}
		return mayBeRaw(d.X, depth+1)
	case *ssa.ChangeType:
		return mayBeRaw(d.X, depth+1)
	case *ssa.FieldAddr:
		return mayBeRaw(d.X, depth+1)
	case *ssa.IndexAddr:
		return mayBeRaw(d.X, depth+1)
	case *ssa.Slice:
		return mayBeRaw(d.X, depth+1)
	case *ssa.Alloc, *ssa.Global, *ssa.MakeSlice:
		return false
	case *ssa.Phi:
		for _, e := range d.Edges {
			if e != v && mayBeRaw(e, depth+1) {
				return true
			}
		}
		return false
	}
	return true // parameters, loads, call results: unknown
}

func (s *state) loopMods(li *loopInfo) *modSet {
	ms := &modSet{heaps: map[string]bool{}, cells: map[ssa.Value]types.Type{}}
	seen := map[*ssa.Function]bool{}
	var blocks []*ssa.BasicBlock
	for b := range li.blocks {
		blocks = append(blocks, b)
	}
	sort.Slice(blocks, func(i, j int) bool { return blocks[i].Index < blocks[j].Index })
	s.collectMods(ms, blocks, seen, true)
	return ms
}

func (s *state) collectMods(ms *modSet, blocks []*ssa.BasicBlock, seen map[*ssa.Function]bool, top bool) {
	u := s.u
	for _, b := range blocks {
		for _, in := range b.Instrs {
			switch d := in.(type) {
			case *ssa.Store:
				t := d.Val.Type()
				switch a := d.Addr.(type) {
				case *ssa.Alloc, *ssa.Global, *ssa.FreeVar:
					if top || !isAllocIn(a, blocks) {
						ms.cells[a] = t
					}
					continue
				}
				for _, hb := range storeBases(d.Addr, t) {
					ms.heaps[hb] = true
				}
				if !u.m.intMode && mayBeRaw(d.Addr, 0) {
					ms.heaps["M"] = true
				}
			case *ssa.MapUpdate:
				ms.heaps["MAP"] = true
			case ssa.CallInstruction:
				s.callMods(ms, d, seen)
				// ghost assignments attached to this call by site clauses
				if cs, ok := callSites(b.Parent())[d]; ok {
					s.siteGhostMods(ms, b.Parent(), fmt.Sprintf("call %s %d", cs.name, cs.k))
					s.siteGhostMods(ms, b.Parent(), fmt.Sprintf("after call %s %d", cs.name, cs.k))
				}
			}
		}
	}
	if !top && len(blocks) > 0 {
		// the body of an inlined callee: its own entry / return sites
		fn := blocks[0].Parent()
		if fc := u.eng.contractFor(fn); fc != nil {
			for _, ss := range fc.sites {
				if ss.site == "entry" || strings.HasPrefix(ss.site, "return") || strings.HasPrefix(ss.site, "exit loop") {
					s.siteGhostMods(ms, fn, ss.site)
				}
			}
		}
	}
	if top && len(blocks) > 0 {
		// exits of loops nested inside the loop being summarised
		fn := blocks[0].Parent()
		in := map[*ssa.BasicBlock]bool{}
		for _, b := range blocks {
			in[b] = true
		}
		for _, li := range loopsOf(fn) {
			if in[li.header] {
				s.siteGhostMods(ms, fn, fmt.Sprintf("exit loop %d", li.ord))
			}
		}
	}
}

// siteGhostMods: ghost variables assigned by the clauses attached to `site` of fn
func (s *state) siteGhostMods(ms *modSet, fn *ssa.Function, site string) {
	u := s.u
	fc := u.eng.contractFor(fn)
	if fc == nil || fn.Pkg == nil {
		return
	}
	for _, ss := range fc.sites {
		if ss.site != site {
			continue
		}
		for _, c := range ss.clauses {
			if c.kind != "ghost" {
				continue
			}
			if g := u.eng.findGhost(fn.Pkg.Pkg, c.label); g != nil {
				e := &env{u: u, st: s, pkg: fn.Pkg.Pkg}
				u.ghostTypes[ghostKey(g)] = e.ghostType(g)
				ms.heaps[ghostKey(g)] = true
			}
		}
	}
}

func isAllocIn(v ssa.Value, blocks []*ssa.BasicBlock) bool {
	a, ok := v.(*ssa.Alloc)
	if !ok {
		return false
	}
	for _, b := range blocks {
		if a.Block() == b {
			return true
		}
	}
	return false
}

func (s *state) callMods(ms *modSet, d ssa.CallInstruction, seen map[*ssa.Function]bool) {
	u := s.u
	c := d.Common()
	if bi, ok := c.Value.(*ssa.Builtin); ok {
		switch bi.Name() {
		case "copy", "append":
			if len(c.Args) > 0 {
				if st, ok := c.Args[0].Type().Underlying().(*types.Slice); ok {
					for _, hb := range heapBasesOfType(st.Elem()) {
						ms.heaps[hb] = true
					}
					if !u.m.intMode && mayBeRaw(c.Args[0], 0) {
						ms.heaps["M"] = true
					}
				}
			}
		}
		return
	}
	callee, fc, _ := s.resolveCallee(d, false)
	if fc != nil && !(u.ct != nil && callee != nil && u.ct.inline[funcKey(callee)]) {
		if fc.modAll {
			ms.all = true
			// ghost variables the callee also lists
			for _, hb := range s.modBases(fc, callee) {
				if strings.HasPrefix(hb, "G_") {
					ms.heaps[hb] = true
				}
			}
			return
		}
		for _, hb := range s.modBases(fc, callee) {
			if hb == "*like*" {
				ms.all = true // (static scan of a loop body: the function value is not known here)
				continue
			}
			ms.heaps[hb] = true
		}
		return
	}
	if callee == nil || len(callee.Blocks) == 0 {
		ms.all = true
		return
	}
	if seen[callee] {
		return
	}
	seen[callee] = true
	s.collectMods(ms, callee.Blocks, seen, false)
}

// modBases: heap base names a contract's modifies clauses may touch
func (s *state) modBases(fc *funcContract, callee *ssa.Function) []string {
	var out []string
	sc := s.scratch()
	sc.heaps = map[string]string{}
	for k, v := range s.heaps {
		sc.heaps[k] = v
	}
	var args []Val
	if callee != nil {
		for _, p := range callee.Params {
			args = append(args, sc.symValNoFacts("dummy_"+p.Name(), p.Type()))
		}
	} else if fc.decl != nil {
		args = sc.dummyArgs(fc)
	}
	e := sc.contractEnv(fc, callee, args, nil)
	for _, m := range fc.modifies {
		if likeParam(m) != "" {
			out = append(out, "*like*")
			continue
		}
		e.what = "modifies " + m.src
		out = append(out, e.modBase(m.e)...)
	}
	return out
}

func (s *state) dummyArgs(fc *funcContract) []Val {
	var args []Val
	e := &env{u: s.u, st: s, pkg: s.u.eng.typesPkg(fc.pkgPath)}
	add := func(fl *ast.FieldList) {
		if fl == nil {
			return
		}
		for _, f := range fl.List {
			t := e.resolveType(f.Type)
			if t == nil {
				panic(engineErr("contract " + fc.key + ": unknown type " + exprString(f.Type)))
			}
			n := len(f.Names)
			if n == 0 {
				n = 1
			}
			for i := 0; i < n; i++ {
				args = append(args, s.symValNoFacts("dummy", t))
			}
		}
	}
	add(fc.decl.Recv)
	add(fc.decl.Type.Params)
	return args
}

// modBase returns heap base names for a modifies entry: a location
// expression (x.f, a[i], *p, global) or a type-level entry T.f / elems(T) / mem
func (e *env) modBase(x *sexpr) []string {
	if x.op != "" {
		e.fail("bad modifies entry")
	}
	if g := e.ghostOf(x.e); g != nil {
		e.u.ghostTypes[ghostKey(g)] = e.ghostType(g)
		return []string{ghostKey(g)}
	}
	if bases, ok := e.typeLevelMod(x.e); ok {
		return bases
	}
	p := e.addrOf(x.e)
	if isRawRef(p.S[0]) {
		return []string{"M"}
	}
	if p.Fld != nil {
		return []string{p.Fld.heap}
	}
	return heapBasesOfType(p.T.Underlying().(*types.Pointer).Elem())
}

func (e *env) typeLevelMod(x ast.Expr) ([]string, bool) {
	switch n := x.(type) {
	case *ast.Ident:
		if n.Name == "mem" {
			return []string{"M"}, true
		}
	case *ast.SelectorExpr:
		if t := e.resolveType(n.X); t != nil {
			if _, shadow := e.vars[exprStr(n.X)]; !shadow {
				return []string{"H_" + tname(t) + "_" + n.Sel.Name}, true
			}
		}
	case *ast.CallExpr:
		if id, ok := n.Fun.(*ast.Ident); ok && id.Name == "elems" && len(n.Args) == 1 {
			if t := e.resolveType(n.Args[0]); t != nil {
				return heapBasesOfType(t), true
			}
		}
	}
	return nil, false
}

// ---- frame checking ------------------------------------------------------------------------

// checkFrame emits the obligation that a store to (base heap, ref, off) is
// permitted by the unit's modifies clause.
func (s *state) checkFrame(bases []string, ref, off string, in ssa.Instruction) {
	u := s.u
	if u.ct == nil || u.ct.noframe || u.ct.modAll {
		return
	}
	if n, ok := intLit(ref); ok && n.Sign() < 0 && !isRawRef(ref) {
		return // freshly allocated in this call
	}
	e := s.contractEnv(u.ct, u.fn, s.entryArgs(), nil)
	e.st = s.old
	e.old = s.old
	var alts []string
	for _, m := range u.ct.modifies {
		e.what = "modifies " + m.src
		if e.ghostOf(m.e.e) != nil {
			continue
		}
		if tb, ok := e.typeLevelMod(m.e.e); ok {
			for _, b := range bases {
				for _, t := range tb {
					if b == t {
						return
					}
				}
			}
			continue
		}
		p := e.addrOf(m.e.e)
		pb := heapBasesOfType(p.T.Underlying().(*types.Pointer).Elem())
		mref, moff := p.S[0], p.S[1]
		if p.Fld != nil {
			pb = []string{p.Fld.heap}
			mref, moff = p.Fld.ref, p.Fld.off
		}
		if isRawRef(p.S[0]) {
			pb = []string{"M"}
		}
		match := false
		for _, b := range bases {
			for _, t := range pb {
				if b == t {
					match = true
				}
			}
		}
		if match {
			alts = append(alts, and(eq(ref, mref), eq(off, moff)))
		}
	}
	fresh := "false"
	if !isRawRef(ref) {
		fresh = fmt.Sprintf("(< %s (- 9))", ref)
	}
	s.oblige("frame", "", "store is permitted by the modifies clause of "+u.name(), or(append(alts, fresh)...), in.Pos(), s.site(in), false)
}

func (s *state) entryArgs() []Val {
	var args []Val
	for _, p := range s.u.fn.Params {
		args = append(args, s.old.vals[p])
	}
	return args
}

// mustBeRaw: the pointer is certainly manufactured from an integer
func mustBeRaw(v ssa.Value, seen map[ssa.Value]bool) bool {
	if seen[v] {
		return true // cycles through phis: decided by the other edges
	}
	seen[v] = true
	switch d := v.(type) {
	case *ssa.Convert:
		if b, ok := d.X.Type().Underlying().(*types.Basic); ok && b.Kind() == types.Uintptr {
			return true
		}
		if _, ok := d.X.Type().Underlying().(*types.Basic); ok && !isInteger(d.X.Type()) { // unsafe.Pointer
			return mustBeRaw(d.X, seen)
		}
		if _, ok := d.X.Type().Underlying().(*types.Pointer); ok {
			return mustBeRaw(d.X, seen)
		}
		return false
	case *ssa.ChangeType:
		return mustBeRaw(d.X, seen)
	case *ssa.FieldAddr:
		return mustBeRaw(d.X, seen)
	case *ssa.IndexAddr:
		return mustBeRaw(d.X, seen)
	case *ssa.Phi:
		n := 0
		for _, e := range d.Edges {
			if c, ok := e.(*ssa.Const); ok && c.Value == nil {
				continue // nil initialiser
			}
			if !mustBeRaw(e, seen) {
				return false
			}
			n++
		}
		return n > 0
	}
	return false
}

// mayModify: can the unit (by its modifies clause) write heap / ghost `name`?
func (u *unit) mayModify(name string) bool {
	if u.ct == nil || u.ct.modAll || u.ct.noframe {
		return true
	}
	if u.modBases == nil {
		u.modBases = map[string]bool{}
		if u.entryOld != nil {
			sc := u.entryOld.scratch()
			e := sc.contractEnv(u.ct, u.fn, nil, nil)
			for _, p := range u.fn.Params {
				e.vars[p.Name()] = u.entryVals[p]
			}
			e.old = u.entryOld
			for _, m := range u.ct.modifies {
				e.what = "modifies " + m.src
				for _, b := range e.modBase(m.e) {
					u.modBases[b] = true
				}
			}
		}
	}
	base := name
	if i := strings.Index(name, "."); i >= 0 && !strings.HasPrefix(name, "G_") {
		base = name[:i]
	}
	if strings.HasPrefix(name, "G_") {
		return u.modBases[name]
	}
	return u.modBases[base]
}
