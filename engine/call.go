package main

import (
	"go/ast"
	"fmt"
	"go/token"
	"go/types"
	"strings"

	"golang.org/x/tools/go/ssa"
	"golang.org/x/tools/go/ssa/ssautil"
)

// resolveCallee finds the function (and contract) a call goes to
func (s *state) resolveCallee(d ssa.CallInstruction, strict bool) (*ssa.Function, *funcContract, *closureVal) {
	u := s.u
	c := d.Common()
	if c.IsInvoke() {
		fc := u.eng.ifaceContract(c.Value.Type(), c.Method.Name())
		return nil, fc, nil
	}
	if f := c.StaticCallee(); f != nil {
		if mc, ok := c.Value.(*ssa.MakeClosure); ok {
			cv := &closureVal{mc: mc, fn: f}
			for _, b := range mc.Bindings {
				cv.binds = append(cv.binds, s.get(b))
			}
			return f, u.calleeContract(f), cv
		}
		return f, u.calleeContract(f), nil
	}
	// a function-typed parameter of a function under contract: callback contract Outer@param
	if p, ok := c.Value.(*ssa.Parameter); ok {
		if pc := u.eng.contracts[p.Parent().Pkg.Pkg.Path()]; pc != nil {
			if fc := pc.funcs[funcKey(p.Parent())+"@"+p.Name()]; fc != nil {
				if _, known := s.vals[p]; !known || !s.isKnownFunc(s.vals[p]) {
					return nil, fc, nil
				}
			}
		}
	}
	// a function value loaded from a struct field: callback contract Outer@Type.field
	if un, ok := c.Value.(*ssa.UnOp); ok && un.Op == token.MUL {
		if fa, ok := un.X.(*ssa.FieldAddr); ok {
			if pt, ok := fa.X.Type().Underlying().(*types.Pointer); ok {
				if st, ok := pt.Elem().Underlying().(*types.Struct); ok {
					if nt, ok := pt.Elem().(*types.Named); ok {
						parent := d.Parent()
						if pc := u.eng.contracts[parent.Pkg.Pkg.Path()]; pc != nil {
							if fc := pc.funcs[funcKey(parent)+"@"+nt.Obj().Name()+"."+st.Field(fa.Field).Name()]; fc != nil {
								return nil, fc, nil
							}
						}
					}
				}
			}
		}
	}
	// dynamic: function value
	var fv Val
	if x, ok := s.vals[c.Value]; ok {
		fv = x
	} else if !strict {
		// value not computed yet (static scan of a loop body): look through
		// loads of seam variables
		if un, ok := c.Value.(*ssa.UnOp); ok {
			if g, ok := un.X.(*ssa.Global); ok {
				if iv, ok := u.eng.immutableInit(g); ok {
					if f, ok := iv.(*ssa.Function); ok {
						return f, u.calleeContract(f), nil
					}
				}
			}
		}
		if p, ok := c.Value.(*ssa.Parameter); ok {
			if x, ok := s.vals[p]; ok {
				fv = x
			}
		}
		if fv.S == nil {
			return nil, nil, nil
		}
	} else {
		fv = s.get(c.Value)
	}
	id := fv.S[0]
	if cv, ok := u.closures[id]; ok {
		return cv.fn, u.calleeContract(cv.fn), cv
	}
	if n, ok := litInt(id); ok {
		if f := u.eng.funcByID[int(n)]; f != nil {
			return f, u.calleeContract(f), nil
		}
	}
	return nil, nil, nil
}

// calleeContract: the contract a call site sees. A function may carry a second, trusted
// contract `Name~callers` - the abstraction its callers in other layers reason with (the real
// contract is the one verified against the body); units that list the function under
// `concrete` see the real one.
func (u *unit) calleeContract(f *ssa.Function) *funcContract {
	fc := u.eng.contractFor(f)
	if f == nil || f.Pkg == nil {
		return fc
	}
	// the calling package's own view of a function of another package
	if u.fn != nil && u.fn.Pkg != nil && u.fn.Pkg != f.Pkg {
		if pc := u.eng.contracts[u.fn.Pkg.Pkg.Path()]; pc != nil {
			for _, k := range externKeys(f) {
				if ab := pc.funcs[k+"~callers"]; ab != nil {
					return ab
				}
			}
		}
	}
	if pc := u.eng.contracts[f.Pkg.Pkg.Path()]; pc != nil {
		if ab := pc.funcs[funcKey(f)+"~callers"]; ab != nil {
			if u.ct != nil && u.ct.concrete[funcKey(f)] {
				return fc
			}
			return ab
		}
	}
	return fc
}

func (e *engine) immutableInit(g *ssa.Global) (ssa.Value, bool) {
	if e.immInit == nil {
		e.computeArrayInits()
		e.immInit = map[*ssa.Global]ssa.Value{}
		stores := map[*ssa.Global]int{}
		addrTaken := map[*ssa.Global]bool{}
		for f := range ssautil.AllFunctions(e.prog) {
			for _, b := range f.Blocks {
				for _, in := range b.Instrs {
					if st, ok := in.(*ssa.Store); ok {
						if g, ok := st.Addr.(*ssa.Global); ok {
							stores[g]++
							if f.Name() == "init" && f.Pkg == g.Pkg {
								e.immInit[g] = st.Val
							}
							continue
						}
					}
					// any other use of the global's address than a load makes it mutable
					for _, op := range in.Operands(nil) {
						if g, ok := (*op).(*ssa.Global); ok {
							if _, isIdx := in.(*ssa.IndexAddr); isIdx {
								continue // element addresses are tracked by computeArrayInits
							}
							if un, ok := in.(*ssa.UnOp); ok && un.Op == token.MUL {
								continue
							}
							if _, ok := in.(*ssa.DebugRef); ok {
								continue
							}
							if st, ok := in.(*ssa.Store); ok && st.Addr == g {
								continue
							}
							addrTaken[g] = true
						}
					}
				}
			}
		}
		for g, n := range stores {
			if n != 1 || addrTaken[g] {
				delete(e.immInit, g)
			}
		}
		for g := range addrTaken {
			delete(e.immInit, g)
		}
	}
	v, ok := e.immInit[g]
	return v, ok
}

func (e *engine) allocID(a *ssa.Alloc) int {
	if e.allocIDs == nil {
		e.allocIDs = map[*ssa.Alloc]int{}
	}
	if id, ok := e.allocIDs[a]; ok {
		return id
	}
	id := 300000 + len(e.allocIDs)
	e.allocIDs[a] = id
	return id
}

func hasLoops(f *ssa.Function) bool { return len(loopsOf(f)) > 0 }

func (s *state) inFrames(f *ssa.Function) bool {
	if s.curFn == f {
		return true
	}
	for _, fr := range s.frames {
		if fr.fn == f {
			return true
		}
	}
	return false
}

func (s *state) doCall(b *ssa.BasicBlock, ii int, d *ssa.Call) bool {
	u := s.u
	c := d.Common()
	if bi, ok := c.Value.(*ssa.Builtin); ok {
		s.vals[d] = s.builtin(bi.Name(), d)
		return true
	}
	cs := callSites(b.Parent())[d]
	var args []Val
	if c.IsInvoke() {
		args = append(args, s.get(c.Value))
	}
	for _, a := range c.Args {
		args = append(args, s.get(a))
	}
	// operands by the callee's parameter names, for arg(name) in `at call` clauses
	if sig := c.Signature(); sig != nil && sig.Params().Len() <= len(c.Args) {
		s.callArgs = map[string]Val{}
		n := sig.Params().Len()
		for i := 0; i < n; i++ {
			if nm := sig.Params().At(i).Name(); nm != "" && nm != "_" {
				s.callArgs[nm] = s.get(c.Args[len(c.Args)-n+i])
			}
		}
	}
	s.runSite(b.Parent(), fmt.Sprintf("call %s %d", cs.name, cs.k), d.Pos(), nil)
	s.callArgs = nil
	callee, fc, cv := s.resolveCallee(d, true)
	wantInline := callee != nil && u.ct != nil && u.ct.inline[funcKey(callee)]
	if fc != nil && !wantInline {
		if cv != nil {
			s.cvBinds = cv.binds
		}
		s.vals[d] = s.applyContract(fc, callee, args, d, d.Type())
		s.cvBinds = nil
		if rv := s.vals[d]; len(rv.S) > 0 {
			s.callResult = &rv
		}
		s.runSite(b.Parent(), fmt.Sprintf("after call %s %d", cs.name, cs.k), d.Pos(), nil)
		s.callResult = nil
		if fc.neverReturns {
			s.endPath()
			return false
		}
		return true
	}
	if callee == nil {
		panic(engineErr(fmt.Sprintf("%s: cannot resolve callee of %s (needs an interface contract or a seam)", u.eng.posStr(d.Pos()), d)))
	}
	if len(callee.Blocks) == 0 {
		panic(engineErr(fmt.Sprintf("%s: callee %s has no body and no contract", u.eng.posStr(d.Pos()), callee)))
	}
	if s.inFrames(callee) {
		panic(engineErr(fmt.Sprintf("%s: recursive call to %s needs a contract", u.eng.posStr(d.Pos()), callee)))
	}
	if !wantInline && hasLoops(callee) && u.eng.contractFor(callee) == nil {
		panic(engineErr(fmt.Sprintf("%s: callee %s has loops: give it a contract or `inline` it with loop clauses", u.eng.posStr(d.Pos()), callee)))
	}
	if len(s.frames) > 12 {
		panic(engineErr("inlining too deep at " + callee.String()))
	}
	// inline
	for i, p := range callee.Params {
		v := args[i]
		s.vals[p] = v
	}
	newNames := map[string]nameBinding{}
	for _, p := range callee.Params {
		newNames[p.Name()] = nameBinding{v: p}
	}
	if cv != nil {
		for i, fv := range callee.FreeVars {
			s.vals[fv] = cv.binds[i]
			newNames[fv.Name()] = nameBinding{v: fv, isAddr: true}
		}
	} else if len(callee.FreeVars) > 0 {
		panic(engineErr("closure call without bindings: " + callee.String()))
	}
	s.frames = append(s.frames, frame{b: b, idx: ii, call: d, names: s.names, fn: s.curFn})
	s.names = newNames
	s.curFn = callee
	u.inlined[funcKey(callee)] = true
	s.runSite(callee, "entry", callee.Pos(), nil)
	s.exec(callee.Blocks[0], nil, 0)
	return false
}

func (s *state) doReturn(rs []Val, d *ssa.Return) {
	u := s.u
	if len(s.frames) > 0 {
		fr := s.frames[len(s.frames)-1]
		s.frames = s.frames[:len(s.frames)-1]
		var flat []string
		for _, r := range rs {
			flat = append(flat, r.S...)
		}
		call := fr.call.(*ssa.Call)
		v := Val{T: call.Type(), S: flat}
		if len(rs) == 1 {
			v.Fld = rs[0].Fld
		}
		s.vals[call] = v
		s.names = fr.names
		s.curFn = fr.fn
		if cs, ok := callSites(fr.b.Parent())[call]; ok {
			if len(v.S) > 0 {
				s.callResult = &v
			}
			s.runSite(fr.b.Parent(), fmt.Sprintf("after call %s %d", cs.name, cs.k), call.Pos(), nil)
			s.callResult = nil
		}
		s.exec(fr.b, nil, fr.idx+1)
		return
	}
	// postconditions of the unit
	if len(u.ct.rawParams) > 0 {
		names := u.ct.resultNames(u.fn)
		for i := range rs {
			if i < len(names) && u.ct.rawParams[names[i]] && len(rs[i].S) >= 2 {
				switch {
				case isRawRef(rs[i].S[0]):
				case rs[i].S[0] == "0": // typed nil: the raw nil pointer
					rs[i] = Val{T: rs[i].T, S: append([]string{rawRef, u.m.offConst(0)}, rs[i].S[2:]...)}
				default:
					panic(engineErr("result " + names[i] + " is declared raw but a typed pointer is returned"))
				}
			}
		}
	}
	e := s.contractEnv(u.ct, u.fn, s.entryArgs(), rs)
	e.useNames = false
	site := fmt.Sprintf("ret%d", u.returnOrd(d))
	s.runSite(u.fn, fmt.Sprintf("return %d", u.returnOrd(d)), d.Pos(), rs)
	s.runSite(u.fn, "return", d.Pos(), rs)
	if u.ct.neverReturns && !u.ct.trusted {
		s.oblige("noreturn", "", "the function never returns", "false", d.Pos(), site, false)
		return
	}
	if u.ct.panicsIf != nil {
		e.what = "panics-unless " + u.ct.panicsIf.src
		oe := *e
		oe.st = s
		s.oblige("returns-only-if", "", u.ct.panicsIf.src, oe.evalBool(u.ct.panicsIf.e), d.Pos(), site, false)
	}
	u.covers = append(u.covers, &oblig{name: u.name() + "#cover." + site, kind: "cover", pc: append([]string(nil), s.pc...), goal: "false", clause: "return reachable", path: u.npaths})
	firstEns := len(u.obligs)
	if len(s.frames) == 0 {
		defer func() {
			// what the path returns and leaves behind: used to replay a counterexample
			var post map[string]string
			for _, o := range u.obligs[firstEns:] {
				if o.kind != "ensures" && o.kind != "returns-only-if" {
					continue
				}
				if post == nil {
					post = map[string]string{}
					for k, v := range s.heaps {
						post[k] = v
					}
				}
				o.results, o.postHeaps = rs, post
			}
		}()
	}
	for i, c := range u.ct.ensures {
		if !c.active() {
			continue
		}
		e.what = fmt.Sprintf("%s ensures %q", u.name(), c.src)
		sc := s.scratch()
		ee := e.with(sc)
		goal := ee.evalBool(c.e)
		save := s.pc
		s.pc = sc.pc
		s.oblige("ensures", clauseLabel(c, i), c.src, goal, d.Pos(), site, c.deep)
		// later clauses may rely on earlier ones (proving E1, then E2 under E1, proves both)
		s.pc = append(save, goal)
	}
	u.returns++
	s.endPath()
}

func (u *unit) returnOrd(d *ssa.Return) int {
	n := 0
	for _, b := range u.fn.Blocks {
		for _, in := range b.Instrs {
			if r, ok := in.(*ssa.Return); ok {
				n++
				if r == d {
					return n
				}
			}
		}
	}
	return 0
}

// applyModifies havocs what a contract's modifies clauses name (after checking the caller's frame)
func (s *state) applyModifies(fc *funcContract, e *env, pre *state, what string, d ssa.Instruction, depth int) {
	u := s.u
	_ = u
	for _, m := range fc.modifies {
		if lk := likeParam(m); lk != "" {
			s.applyLike(lk, fc, e, pre, what, d, depth)
			continue
		}
		e.what = fmt.Sprintf("call %s modifies %q", what, m.src)
		if g := e.ghostOf(m.e.e); g != nil {
			s.checkFrameGhost(ghostKey(g), d.Pos())
			s.havocGhost(ghostKey(g), e.ghostType(g))
			continue
		}
		if bases, ok := e.typeLevelMod(m.e.e); ok {
			s.checkFrameWhole(bases, d)
			s.checkGuard(bases, d) // a callee that writes lock-protected state must be called with the lock held
			for _, h := range s.heapNames() {
				base := h
				if i := strings.Index(h, "."); i >= 0 {
					base = h[:i]
				}
				for _, bb := range bases {
					if base == bb {
						s.havocHeap(h)
					}
				}
			}
			continue
		}
		pe := e.with(pre)
		p := pe.addrOf(m.e.e)
		t := p.T.Underlying().(*types.Pointer).Elem()
		ref, off := p.S[0], p.S[1]
		bases := heapBasesOfType(t)
		if p.Fld != nil {
			ref, off, bases = p.Fld.ref, p.Fld.off, []string{p.Fld.heap}
		}
		if isRawRef(p.S[0]) {
			bases = []string{"M"}
		}
		s.checkFrame(bases, ref, off, d)
		s.checkGuard(bases, d)
		if isInlineField(t) && !isRawRef(p.S[0]) {
			panic(engineErr("modifies of a whole struct/array location: list the fields or use T.f"))
		}
		s.storeAt(t, p.S[0], p.S[1], p.Fld, s.symValNoFacts("mod_"+what, t))
	}
}

// likeParam: `modifies like(visitor)` - whatever the function bound to that parameter may modify
func likeParam(m *clause) string {
	if m.e == nil || m.e.e == nil {
		return ""
	}
	if c, ok := m.e.e.(*ast.CallExpr); ok && len(c.Args) == 1 {
		if f, ok := c.Fun.(*ast.Ident); ok && f.Name == "like" {
			if a, ok := c.Args[0].(*ast.Ident); ok {
				return a.Name
			}
		}
	}
	return ""
}

// applyLike: the callee does nothing but call the function value passed as `param`: its effect
// on the state is the effect that function's own contract allows, any number of times
func (s *state) applyLike(param string, fc *funcContract, e *env, pre *state, what string, d ssa.Instruction, depth int) {
	u := s.u
	if depth > 3 {
		panic(engineErr("modifies like(...) nested too deep"))
	}
	v, ok := e.vars[param]
	if !ok || len(v.S) != 1 {
		panic(engineErr(fmt.Sprintf("%s: modifies like(%s): no such function-valued parameter", what, param)))
	}
	var fn *ssa.Function
	var binds []Val
	if cv, ok := u.closures[v.S[0]]; ok {
		fn, binds = cv.fn, cv.binds
	} else if n, ok := litInt(v.S[0]); ok {
		fn = u.eng.funcByID[int(n)]
	}
	if fn == nil {
		panic(engineErr(fmt.Sprintf("%s: modifies like(%s): the function passed is not known at this call site", what, param)))
	}
	fc2 := u.eng.contractFor(fn)
	if fc2 == nil {
		panic(engineErr(fmt.Sprintf("%s: modifies like(%s): %s has no contract", what, param, funcKey(fn))))
	}
	if fc2.modAll {
		panic(engineErr(fmt.Sprintf("%s: modifies like(%s): %s modifies *", what, param, funcKey(fn))))
	}
	var dummy []Val
	for _, p := range fn.Params {
		dummy = append(dummy, s.symValNoFacts("like_"+p.Name(), p.Type()))
	}
	saved := s.cvBinds
	s.cvBinds = binds
	e2 := s.contractEnv(fc2, fn, dummy, nil)
	s.cvBinds = saved
	u.notes["callee "+what+" is assumed to do nothing but call "+funcKey(fn)+" (its contract's modifies clause bounds the effect)"] = true
	s.applyModifies(fc2, e2, pre, what+"/"+funcKey(fn), d, depth+1)
}

// applyContract: assert requires, havoc modifies, assume ensures
func (s *state) applyContract(fc *funcContract, callee *ssa.Function, args []Val, d ssa.Instruction, rt types.Type) Val {
	u := s.u
	what := fc.key
	for i := range args {
		if args[i].Fld != nil {
			panic(engineErr(fmt.Sprintf("%s: address of a scalar field passed to %s", u.eng.posStr(d.Pos()), what)))
		}
	}
	e := s.contractEnv(fc, callee, args, nil)
	site := s.site(d)
	for i, c := range fc.requires {
		if !c.active() {
			continue
		}
		e.what = fmt.Sprintf("call %s requires %q", what, c.src)
		sc := s.scratch()
		goal := e.with(sc).evalBool(c.e)
		save := s.pc
		s.pc = sc.pc
		if u.ct != nil && u.ct.partial {
			u.notes["partial contract: preconditions of the callees of "+u.name()+" are assumed, not proved"] = true
		} else {
			s.oblige("call-requires", what+"."+clauseLabel(c, i), c.src, goal, d.Pos(), site, c.deep)
		}
		s.pc = append(save, goal)
	}
	pre := s.snapshot()
	// frame: callee's modifies must be covered by ours
	if fc.modAll {
		if u.ct != nil && !u.ct.modAll && !u.ct.noframe {
			s.oblige("frame", "", "callee "+what+" modifies * but the caller does not", "false", d.Pos(), site, false)
		}
		for _, h := range s.heapNames() {
			s.havocHeap(h)
		}
		// heaps this path has not touched yet may have been changed too: from here on a heap
		// touched for the first time is a new symbol, not the entry-state one
		u.fresh++
		s.gen = fmt.Sprintf("%s~%d", s.gen, u.fresh)
	}
	s.applyModifies(fc, e, pre, what, d, 0)
	// results
	var results []Val
	var flat []string
	if tup, ok := rt.(*types.Tuple); ok {
		for i := 0; i < tup.Len(); i++ {
			r := s.symVal("ret_"+what, tup.At(i).Type())
			results = append(results, r)
			flat = append(flat, r.S...)
		}
	} else if rt != nil {
		r := s.symVal("ret_"+what, rt)
		results = append(results, r)
		flat = r.S
	}
	// results declared raw (integer-made pointers)
	if len(fc.rawParams) > 0 {
		names := fc.resultNames(callee)
		k := 0
		for i := range results {
			n := len(results[i].S)
			if i < len(names) && fc.rawParams[names[i]] && n >= 2 {
				results[i].S[0] = rawRef
				flat[k] = rawRef
			}
			k += n
		}
	}
	pe := s.contractEnv(fc, callee, args, results)
	pe.old = pre
	for _, c := range fc.ensures {
		if !c.active() {
			continue
		}
		pe.what = fmt.Sprintf("call %s ensures %q", what, c.src)
		s.pc = append(s.pc, pe.evalBool(c.e))
	}
	if fc.trusted {
		u.notes["assumed contract (trusted, not verified): "+fc.pkgShort()+"."+fc.key] = true
	} else {
		u.notes["callee by contract: "+fc.pkgShort()+"."+fc.key] = true
	}
	return Val{T: rt, S: flat}
}

func (fc *funcContract) pkgShort() string { return strings.TrimPrefix(fc.pkgPath, modPrefix+"/") }

func (s *state) checkFrameWhole(bases []string, in ssa.Instruction) {
	u := s.u
	if u.ct == nil || u.ct.noframe || u.ct.modAll {
		return
	}
	e := s.contractEnv(u.ct, u.fn, s.entryArgs(), nil)
	for _, b := range bases {
		ok := false
		for _, m := range u.ct.modifies {
			if tb, isT := e.typeLevelMod(m.e.e); isT {
				for _, t := range tb {
					if t == b {
						ok = true
					}
				}
			}
		}
		if !ok {
			s.oblige("frame", "", "callee modifies all of "+b+" but the caller's modifies clause does not allow it", "false", in.Pos(), s.site(in), false)
		}
	}
}

// ---- builtins ---------------------------------------------------------------------------------

func (s *state) builtin(name string, d *ssa.Call) Val {
	u := s.u
	args := d.Call.Args
	switch name {
	case "len", "cap":
		x := s.get(args[0])
		switch at := args[0].Type().Underlying().(type) {
		case *types.Slice:
			if name == "cap" {
				return Val{T: d.Type(), S: []string{x.S[3]}}
			}
			return Val{T: d.Type(), S: []string{x.S[2]}}
		case *types.Basic:
			return Val{T: d.Type(), S: []string{x.S[2]}}
		case *types.Map:
			u.notes["len(map) is unconstrained"] = true
			return s.symVal("maplen", d.Type())
		default:
			_ = at
		}
	case "copy":
		dst, src := s.get(args[0]), s.get(args[1])
		return s.copyOp(dst, src, args[0].Type(), args[1].Type(), d)
	case "append":
		return s.appendOp(d)
	}
	panic(engineErr("unsupported builtin " + name))
}

// copyOp models copy(dst, src): n = min(len) elements, as a bulk update that
// is instantiated lazily: the destination heap becomes a fresh array related
// to the old one by a quantified fact.
func (s *state) copyOp(dst, src Val, dt, st types.Type, d *ssa.Call) Val {
	u := s.u
	m := u.m
	et := dt.Underlying().(*types.Slice).Elem()
	srcLen := src.S[2]
	var n string
	if m.intMode {
		n = fmt.Sprintf("(ite (< %s %s) %s %s)", dst.S[2], srcLen, dst.S[2], srcLen)
	} else {
		n = fmt.Sprintf("(ite (bvslt %s %s) %s %s)", dst.S[2], srcLen, dst.S[2], srcLen)
	}
	nsym := u.newSym("copy_n", m.offSort())
	s.pc = append(s.pc, eq(nsym, n))
	esz := sizes.Sizeof(et)
	if isRawRef(dst.S[0]) || isRawRef(src.S[0]) {
		if isInlineField(et) || esz != 1 {
			panic(engineErr("copy on raw memory with non-byte elements"))
		}
		if isRawRef(dst.S[0]) {
			s.checkFrame([]string{"M"}, rawRef, dst.S[1], d)
		}
	}
	if isInlineField(et) {
		panic(engineErr("copy of struct elements"))
	}
	if !isRawRef(dst.S[0]) {
		s.checkFrameRange(heapBasesOfType(et), dst.S[0], d)
	}
	// new heap(s): forall i. new[dref][doff+i*esz] = (0<=i<n ? old[sref][soff+i*esz] : old[dref][..]); other refs unchanged
	for _, l := range m.leaves(et) {
		if isRawRef(dst.S[0]) || isRawRef(src.S[0]) {
			s.copyRaw(dst, src, nsym)
			break
		}
		hname := "E_" + tname(et) + l.path
		old := s.heap(hname, l.sort)
		s.havocHeap(hname)
		nw := s.heaps[hname]
		iv := fmt.Sprintf("|i!c%d|", u.fresh)
		u.fresh++
		var inr, dOff, sOff string
		if m.intMode {
			inr = fmt.Sprintf("(and (<= 0 %s) (< %s %s))", iv, iv, nsym)
			dOff = fmt.Sprintf("(+ %s (* %s %d))", dst.S[1], iv, esz)
			sOff = fmt.Sprintf("(+ %s (* %s %d))", src.S[1], iv, esz)
		} else {
			inr = fmt.Sprintf("(and (bvsle (_ bv0 64) %s) (bvslt %s %s))", iv, iv, nsym)
			dOff = bvadd(dst.S[1], m.offMulConst(iv, esz))
			sOff = bvadd(src.S[1], m.offMulConst(iv, esz))
		}
		// elementwise description through an auxiliary array for the destination object
		s.pc = append(s.pc,
			fmt.Sprintf("(forall ((%s %s)) (=> %s (= (select (select %s %s) %s) (select (select %s %s) %s))))", iv, m.offSort(), inr, nw, dst.S[0], dOff, old, src.S[0], sOff),
			fmt.Sprintf("(forall ((r!c Int)) (=> (not (= r!c %s)) (= (select %s r!c) (select %s r!c))))", dst.S[0], nw, old))
		// untouched offsets of the destination object
		ov := "|o!c|"
		var outside string
		if m.intMode {
			outside = fmt.Sprintf("(or (< %s %s) (>= %s (+ %s (* %s %d))))", ov, dst.S[1], ov, dst.S[1], nsym, esz)
		} else {
			outside = fmt.Sprintf("(bvuge (bvsub %s %s) %s)", ov, dst.S[1], m.offMulConst(nsym, esz))
		}
		s.pc = append(s.pc, fmt.Sprintf("(forall ((%s %s)) (=> %s (= (select (select %s %s) %s) (select (select %s %s) %s))))", ov, m.offSort(), outside, nw, dst.S[0], ov, old, dst.S[0], ov))
	}
	return Val{T: d.Type(), S: []string{nsym}}
}

func (s *state) copyRaw(dst, src Val, n string) {
	u := s.u
	m := u.m
	oldM := s.heap("M", "(_ BitVec 8)")
	rdSrc := func(i string) string {
		if isRawRef(src.S[0]) {
			return fmt.Sprintf("(select %s (bvadd %s %s))", oldM, src.S[1], i)
		}
		return s.rd("E_uint8", m.intSort(8), src.S[0], bvadd(src.S[1], i))
	}
	iv := "|i!cr|"
	inr := fmt.Sprintf("(bvult %s %s)", iv, n)
	if isRawRef(dst.S[0]) {
		srcTerm := rdSrc(iv)
		s.havocHeap("M")
		nw := s.heaps["M"]
		s.pc = append(s.pc,
			fmt.Sprintf("(forall ((%s (_ BitVec 64))) (=> %s (= (select %s (bvadd %s %s)) %s)))", iv, inr, nw, dst.S[1], iv, srcTerm),
			fmt.Sprintf("(forall ((a!cr (_ BitVec 64))) (=> (bvuge (bvsub a!cr %s) %s) (= (select %s a!cr) (select %s a!cr))))", dst.S[1], n, nw, oldM))
		return
	}
	hname := "E_uint8"
	old := s.heap(hname, m.intSort(8))
	srcTerm := rdSrc(iv)
	s.havocHeap(hname)
	nw := s.heaps[hname]
	s.pc = append(s.pc,
		fmt.Sprintf("(forall ((%s (_ BitVec 64))) (=> %s (= (select (select %s %s) (bvadd %s %s)) %s)))", iv, inr, nw, dst.S[0], dst.S[1], iv, srcTerm),
		fmt.Sprintf("(forall ((r!c Int)) (=> (not (= r!c %s)) (= (select %s r!c) (select %s r!c))))", dst.S[0], nw, old),
		fmt.Sprintf("(forall ((o!c (_ BitVec 64))) (=> (bvuge (bvsub o!c %s) %s) (= (select (select %s %s) o!c) (select (select %s %s) o!c))))", dst.S[1], n, nw, dst.S[0], old, dst.S[0]))
}

// checkFrameRange: a bulk write into object ref (any offset)
func (s *state) checkFrameRange(bases []string, ref string, in ssa.Instruction) {
	u := s.u
	if u.ct == nil || u.ct.noframe || u.ct.modAll {
		return
	}
	if n, ok := intLit(ref); ok && n.Sign() < 0 && !isRawRef(ref) {
		return
	}
	e := s.contractEnv(u.ct, u.fn, s.entryArgs(), nil)
	for _, m := range u.ct.modifies {
		if tb, isT := e.typeLevelMod(m.e.e); isT {
			for _, t := range tb {
				for _, b := range bases {
					if t == b {
						return
					}
				}
			}
		}
	}
	s.oblige("frame", "", "bulk write (copy/append) needs a type-level modifies entry elems(T)", fmt.Sprintf("(< %s (- 9))", ref), in.Pos(), s.site(in), false)
}

func (s *state) appendOp(d *ssa.Call) Val {
	u := s.u
	m := u.m
	args := d.Call.Args
	base := s.get(args[0])
	add := s.get(args[1])
	st := args[0].Type().Underlying().(*types.Slice)
	et := st.Elem()
	// result: a slice of length len+len(add) whose first len elements equal
	// the old ones and whose tail equals add; storage is fresh (growth) or
	// the old backing array (capacity suffices) - both are covered by making
	// the result reference unconstrained between the two.
	u.notes["append: result is modelled as freshly allocated storage holding the concatenation (in-place growth not distinguished)"] = true
	u.nextRef++
	ref := fmt.Sprintf("(- %d)", 9+u.nextRef)
	var nl string
	if m.intMode {
		nl = fmt.Sprintf("(+ %s %s)", base.S[2], add.S[2])
	} else {
		nl = bvadd(base.S[2], add.S[2])
	}
	ncap := u.newSym("append_cap", m.offSort())
	if m.intMode {
		s.pc = append(s.pc, fmt.Sprintf("(>= %s %s)", ncap, nl))
	} else {
		s.pc = append(s.pc, fmt.Sprintf("(bvsge %s %s)", ncap, nl), fmt.Sprintf("(bvsge %s (_ bv0 64))", nl))
	}
	esz := sizes.Sizeof(et)
	if isInlineField(et) {
		panic(engineErr("append of struct elements"))
	}
	for _, l := range m.leaves(et) {
		hname := "E_" + tname(et) + l.path
		old := s.heap(hname, l.sort)
		s.havocHeap(hname)
		nw := s.heaps[hname]
		iv := "|i!a|"
		var c1, c2, o1, o2, o3 string
		if m.intMode {
			c1 = fmt.Sprintf("(and (<= 0 %s) (< %s %s))", iv, iv, base.S[2])
			c2 = fmt.Sprintf("(and (<= 0 %s) (< %s %s))", iv, iv, add.S[2])
			o1 = fmt.Sprintf("(* %s %d)", iv, esz)
			o2 = fmt.Sprintf("(+ %s (* %s %d))", base.S[1], iv, esz)
			o3 = fmt.Sprintf("(* (+ %s %s) %d)", base.S[2], iv, esz)
		} else {
			c1 = fmt.Sprintf("(bvult %s %s)", iv, base.S[2])
			c2 = fmt.Sprintf("(bvult %s %s)", iv, add.S[2])
			o1 = m.offMulConst(iv, esz)
			o2 = bvadd(base.S[1], m.offMulConst(iv, esz))
			o3 = m.offMulConst(bvadd(base.S[2], iv), esz)
		}
		var addOff string
		if m.intMode {
			addOff = fmt.Sprintf("(+ %s (* %s %d))", add.S[1], iv, esz)
		} else {
			addOff = bvadd(add.S[1], m.offMulConst(iv, esz))
		}
		tail := fmt.Sprintf("(forall ((%s %s)) (=> %s (= (select (select %s %s) %s) (select (select %s %s) %s))))", iv, m.offSort(), c2, nw, ref, o3, old, add.S[0], addOff)
		if n, lit := litInt(add.S[2]); lit && n >= 0 && n <= 4 {
			// append(s, x, ...): a known small number of new elements - stated one by one
			var gs []string
			for i := int64(0); i < n; i++ {
				ic := m.offConst(i)
				var po, ao string
				if m.intMode {
					po = fmt.Sprintf("(* (+ %s %s) %d)", base.S[2], ic, esz)
					ao = fmt.Sprintf("(+ %s (* %s %d))", add.S[1], ic, esz)
				} else {
					po = m.offMulConst(bvadd(base.S[2], ic), esz)
					ao = bvadd(add.S[1], m.offMulConst(ic, esz))
				}
				gs = append(gs, fmt.Sprintf("(= (select (select %s %s) %s) (select (select %s %s) %s))", nw, ref, po, old, add.S[0], ao))
			}
			tail = "true"
			if len(gs) > 0 {
				tail = "(and " + strings.Join(gs, " ") + " true)"
			}
		}
		s.pc = append(s.pc,
			fmt.Sprintf("(forall ((%s %s)) (=> %s (= (select (select %s %s) %s) (select (select %s %s) %s))))", iv, m.offSort(), c1, nw, ref, o1, old, base.S[0], o2),
			tail,
			fmt.Sprintf("(forall ((r!c Int)) (=> (not (= r!c %s)) (= (select %s r!c) (select %s r!c))))", ref, nw, old))
	}
	return Val{T: d.Type(), S: []string{ref, m.offConst(0), nl, ncap}}
}

func (s *state) isKnownFunc(v Val) bool {
	if len(v.S) != 1 {
		return false
	}
	if _, ok := s.u.closures[v.S[0]]; ok {
		return true
	}
	if n, ok := litInt(v.S[0]); ok {
		return s.u.eng.funcByID[int(n)] != nil
	}
	return false
}

// computeArrayInits: package-level arrays whose elements are only ever
// written by constant stores in the package initialiser
func (e *engine) computeArrayInits() {
	e.arrInit = map[*ssa.Global]map[int64]*ssa.Const{}
	bad := map[*ssa.Global]bool{}
	for f := range ssautil.AllFunctions(e.prog) {
		for _, b := range f.Blocks {
			for _, in := range b.Instrs {
				ia, ok := in.(*ssa.IndexAddr)
				if !ok {
					// any non-IndexAddr, non-load use of an array global makes it mutable
					for _, op := range in.Operands(nil) {
						if g, ok := (*op).(*ssa.Global); ok {
							if _, isArr := g.Type().Underlying().(*types.Pointer).Elem().Underlying().(*types.Array); isArr {
								if un, ok := in.(*ssa.UnOp); ok && un.Op == token.MUL {
									continue
								}
								if _, ok := in.(*ssa.DebugRef); ok {
									continue
								}
								bad[g] = true
							}
						}
					}
					continue
				}
				g, ok := ia.X.(*ssa.Global)
				if !ok {
					continue
				}
				for _, ref := range *ia.Referrers() {
					switch r := ref.(type) {
					case *ssa.UnOp:
						if r.Op != token.MUL {
							bad[g] = true
						}
					case *ssa.DebugRef:
					case *ssa.Store:
						c, isConst := r.Val.(*ssa.Const)
						idx, idxConst := ia.Index.(*ssa.Const)
						if r.Addr != ia || !isConst || !idxConst || f.Name() != "init" || f.Pkg != g.Pkg {
							bad[g] = true
							continue
						}
						if e.arrInit[g] == nil {
							e.arrInit[g] = map[int64]*ssa.Const{}
						}
						e.arrInit[g][idx.Int64()] = c
					default:
						bad[g] = true
					}
				}
			}
		}
	}
	for g := range bad {
		delete(e.arrInit, g)
	}
}

func (fc *funcContract) resultNames(fn *ssa.Function) []string {
	var names []string
	if fc.decl != nil && fc.decl.Type.Results != nil {
		for _, f := range fc.decl.Type.Results.List {
			if len(f.Names) == 0 {
				names = append(names, "")
			}
			for _, n := range f.Names {
				names = append(names, n.Name)
			}
		}
	}
	if fn != nil {
		rs := fn.Signature.Results()
		for i := 0; i < rs.Len(); i++ {
			if i >= len(names) {
				names = append(names, rs.At(i).Name())
			} else if names[i] == "" {
				names[i] = rs.At(i).Name()
			}
		}
	}
	return names
}
