package main

// SMT term helpers. Terms are strings; a handful of local simplifications keep
// path conditions small and let branches on concrete values be folded.

import (
	"fmt"
	"go/types"
	"math/big"
	"strings"
)

var sizes = types.SizesFor("gc", "amd64")

// Val is a flattened symbolic value: one SMT term per leaf of its Go type.
type Val struct {
	T   types.Type
	S   []string
	K   *big.Int  // non-nil: (untyped) integer constant not yet materialised
	Fld *fieldRef // non-nil: pointer is the address of a scalar struct field
}

type leaf struct {
	path string // e.g. ".freeBitmap.len"
	sort string
	off  int64 // byte offset inside the enclosing value
	t    types.Type
}

// arithmetic mode of the unit being verified
type mode struct{ intMode bool }

func (m mode) intSort(bits int64) string {
	if m.intMode {
		return "Int"
	}
	return fmt.Sprintf("(_ BitVec %d)", bits)
}
func (m mode) offSort() string { return m.intSort(64) }

func (m mode) offConst(n int64) string { return m.intConst(big.NewInt(n), 64) }

func (m mode) intConst(v *big.Int, bits int64) string {
	if m.intMode {
		if v.Sign() < 0 {
			return "(- " + new(big.Int).Neg(v).String() + ")"
		}
		return v.String()
	}
	mod := new(big.Int).Lsh(big.NewInt(1), uint(bits))
	x := new(big.Int).Mod(v, mod)
	return fmt.Sprintf("(_ bv%s %d)", x.String(), bits)
}

func (m mode) offAdd(a, b string) string {
	if m.intMode {
		return sadd(a, b)
	}
	return bvadd(a, b)
}

func (m mode) offMulConst(a string, k int64) string {
	if k == 1 {
		return a
	}
	if m.intMode {
		if n, ok := intLit(a); ok {
			return new(big.Int).Mul(n, big.NewInt(k)).String()
		}
		return fmt.Sprintf("(* %s %d)", a, k)
	}
	if v, w, ok := bvLit(a); ok {
		return m.intConst(new(big.Int).Mul(v, big.NewInt(k)), w)
	}
	return fmt.Sprintf("(bvmul %s %s)", a, m.offConst(k))
}

func sadd(a, b string) string {
	x, okx := intLit(a)
	y, oky := intLit(b)
	if okx && oky {
		return bigInt(new(big.Int).Add(x, y))
	}
	if okx && x.Sign() == 0 {
		return b
	}
	if oky && y.Sign() == 0 {
		return a
	}
	return "(+ " + a + " " + b + ")"
}

func bigInt(v *big.Int) string {
	if v.Sign() < 0 {
		return "(- " + new(big.Int).Neg(v).String() + ")"
	}
	return v.String()
}

func intLit(t string) (*big.Int, bool) {
	if strings.HasPrefix(t, "(- ") && strings.HasSuffix(t, ")") {
		if v, ok := new(big.Int).SetString(t[3:len(t)-1], 10); ok {
			return v.Neg(v), true
		}
		return nil, false
	}
	if len(t) == 0 || t[0] < '0' || t[0] > '9' {
		return nil, false
	}
	v, ok := new(big.Int).SetString(t, 10)
	return v, ok
}

func bvLit(t string) (*big.Int, int64, bool) {
	if !strings.HasPrefix(t, "(_ bv") {
		return nil, 0, false
	}
	var w int64
	rest := t[5 : len(t)-1]
	sp := strings.IndexByte(rest, ' ')
	if sp < 0 {
		return nil, 0, false
	}
	v, ok := new(big.Int).SetString(rest[:sp], 10)
	if !ok {
		return nil, 0, false
	}
	if _, err := fmt.Sscanf(rest[sp+1:], "%d", &w); err != nil {
		return nil, 0, false
	}
	return v, w, true
}

func bvadd(a, b string) string {
	x, w, okx := bvLit(a)
	y, _, oky := bvLit(b)
	if okx && oky {
		return mode{}.intConst(new(big.Int).Add(x, y), w)
	}
	if okx && x.Sign() == 0 {
		return b
	}
	if oky && y.Sign() == 0 {
		return a
	}
	return "(bvadd " + a + " " + b + ")"
}

func and(xs ...string) string {
	var out []string
	for _, x := range xs {
		if x == "true" || x == "" {
			continue
		}
		if x == "false" {
			return "false"
		}
		out = append(out, x)
	}
	switch len(out) {
	case 0:
		return "true"
	case 1:
		return out[0]
	}
	return "(and " + strings.Join(out, " ") + ")"
}

func or(xs ...string) string {
	var out []string
	for _, x := range xs {
		if x == "false" || x == "" {
			continue
		}
		if x == "true" {
			return "true"
		}
		out = append(out, x)
	}
	switch len(out) {
	case 0:
		return "false"
	case 1:
		return out[0]
	}
	return "(or " + strings.Join(out, " ") + ")"
}

func not(x string) string {
	switch x {
	case "true":
		return "false"
	case "false":
		return "true"
	}
	if strings.HasPrefix(x, "(not ") && strings.HasSuffix(x, ")") && balanced(x[5:len(x)-1]) {
		return x[5 : len(x)-1]
	}
	return "(not " + x + ")"
}

func balanced(s string) bool {
	d := 0
	inq := false
	for i := 0; i < len(s); i++ {
		switch s[i] {
		case '|':
			inq = !inq
		case '(':
			if !inq {
				d++
			}
		case ')':
			if !inq {
				d--
				if d < 0 {
					return false
				}
			}
		case ' ':
			if d == 0 && !inq {
				return false
			}
		}
	}
	return d == 0
}

func implies(a, b string) string {
	if a == "true" {
		return b
	}
	if a == "false" || b == "true" {
		return "true"
	}
	if b == "false" {
		return not(a)
	}
	return "(=> " + a + " " + b + ")"
}

func ite(c, a, b string) string {
	if c == "true" {
		return a
	}
	if c == "false" {
		return b
	}
	if a == b {
		return a
	}
	return "(ite " + c + " " + a + " " + b + ")"
}

func eq(a, b string) string {
	if a == b {
		return "true"
	}
	if x, _, ok := bvLit(a); ok {
		if y, _, ok := bvLit(b); ok {
			return fmt.Sprint(x.Cmp(y) == 0)
		}
	}
	if x, ok := intLit(a); ok {
		if y, ok := intLit(b); ok {
			return fmt.Sprint(x.Cmp(y) == 0)
		}
	}
	if (a == "true" || a == "false") && (b == "true" || b == "false") {
		return fmt.Sprint(a == b)
	}
	if a == "true" {
		return b
	}
	if b == "true" {
		return a
	}
	if a == "false" {
		return not(b)
	}
	if b == "false" {
		return not(a)
	}
	return "(= " + a + " " + b + ")"
}

func pow2(w int64) *big.Int { return new(big.Int).Lsh(big.NewInt(1), uint(w)) }

// ---- type flattening --------------------------------------------------------

func isInteger(t types.Type) bool {
	b, ok := t.Underlying().(*types.Basic)
	return ok && b.Info()&types.IsInteger != 0
}

func isSigned(t types.Type) bool {
	b, ok := t.Underlying().(*types.Basic)
	return ok && b.Info()&types.IsInteger != 0 && b.Info()&types.IsUnsigned == 0
}

func isBool(t types.Type) bool {
	b, ok := t.Underlying().(*types.Basic)
	return ok && b.Info()&types.IsBoolean != 0
}

func isUntyped(t types.Type) bool {
	b, ok := t.(*types.Basic)
	return ok && b.Info()&types.IsUntyped != 0
}

func width(t types.Type) int64 { return sizes.Sizeof(t) * 8 }

// memType is the spec-level type of the raw byte memory (ufun parameters)
var memType = types.NewNamed(types.NewTypeName(0, nil, "memory", nil), types.NewStruct(nil, nil), nil)

// arrType(elem): spec-level type of the contents of one allocation unit
// (byte offset -> element), e.g. the words of a bitmap
var arrTypes = map[string]*types.Named{}
var arrElem = map[*types.Named]types.Type{}

func arrTypeOf(elem types.Type) *types.Named {
	k := types.TypeString(elem, nil)
	if t, ok := arrTypes[k]; ok {
		return t
	}
	t := types.NewNamed(types.NewTypeName(0, nil, "arr["+k+"]", nil), types.NewStruct(nil, nil), nil)
	arrTypes[k] = t
	arrElem[t] = elem
	return t
}

func (m mode) leaves(t types.Type) []leaf {
	if nt, ok := t.(*types.Named); ok {
		if el, ok := arrElem[nt]; ok {
			ls := m.leaves(el)
			if len(ls) != 1 {
				panic(engineErr("arr[T] needs a scalar T"))
			}
			return []leaf{{"", fmt.Sprintf("(Array %s %s)", m.offSort(), ls[0].sort), 0, nil}}
		}
	}
	if t == memType {
		return []leaf{{"", "(Array (_ BitVec 64) (_ BitVec 8))", 0, nil}}
	}
	switch u := t.Underlying().(type) {
	case *types.Basic:
		switch {
		case u.Info()&types.IsBoolean != 0:
			return []leaf{{"", "Bool", 0, t}}
		case u.Info()&types.IsInteger != 0:
			if u.Info()&types.IsUntyped != 0 {
				return []leaf{{"", m.intSort(64), 0, types.Typ[types.Int]}}
			}
			return []leaf{{"", m.intSort(width(t)), 0, t}}
		case u.Kind() == types.UnsafePointer:
			return []leaf{{".ref", "Int", 0, nil}, {".off", m.offSort(), 0, nil}}
		case u.Info()&types.IsString != 0:
			return []leaf{{".ref", "Int", 0, nil}, {".off", m.offSort(), 0, nil}, {".len", m.offSort(), 8, types.Typ[types.Int]}}
		case u.Kind() == types.UntypedNil:
			return []leaf{{".ref", "Int", 0, nil}, {".off", m.offSort(), 0, nil}}
		}
	case *types.Pointer:
		return []leaf{{".ref", "Int", 0, nil}, {".off", m.offSort(), 0, nil}}
	case *types.Slice:
		return []leaf{{".ref", "Int", 0, nil}, {".off", m.offSort(), 0, nil}, {".len", m.offSort(), 8, types.Typ[types.Int]}, {".cap", m.offSort(), 16, types.Typ[types.Int]}}
	case *types.Struct:
		fs := make([]*types.Var, u.NumFields())
		for i := range fs {
			fs[i] = u.Field(i)
		}
		offs := sizes.Offsetsof(fs)
		var out []leaf
		for i, f := range fs {
			for _, l := range m.leaves(f.Type()) {
				out = append(out, leaf{"." + f.Name() + l.path, l.sort, offs[i] + l.off, l.t})
			}
		}
		return out
	case *types.Signature:
		return []leaf{{".fn", "Int", 0, nil}}
	case *types.Interface:
		return []leaf{{".tag", "Int", 0, nil}, {".box", "Int", 0, nil}}
	case *types.Map, *types.Chan:
		return []leaf{{".ref", "Int", 0, nil}}
	case *types.Tuple:
		var out []leaf
		for i := 0; i < u.Len(); i++ {
			for _, l := range m.leaves(u.At(i).Type()) {
				out = append(out, leaf{fmt.Sprintf(".%d%s", i, l.path), l.sort, 0, l.t})
			}
		}
		return out
	case *types.Array:
		// array values are flattened element-wise (only small arrays are
		// ever handled by value)
		if u.Len() > 64 {
			panic(engineErr("array value too large to flatten: " + t.String()))
		}
		esz := sizes.Sizeof(u.Elem())
		var out []leaf
		for i := int64(0); i < u.Len(); i++ {
			for _, l := range m.leaves(u.Elem()) {
				out = append(out, leaf{fmt.Sprintf("[%d]%s", i, l.path), l.sort, i*esz + l.off, l.t})
			}
		}
		return out
	}
	panic(engineErr("unsupported type " + t.String()))
}

func (m mode) zeroOf(sort string) string {
	switch sort {
	case "Int":
		return "0"
	case "Bool":
		return "false"
	}
	var w int64
	fmt.Sscanf(sort, "(_ BitVec %d)", &w)
	return fmt.Sprintf("(_ bv0 %d)", w)
}

func (m mode) zeroVal(t types.Type) Val {
	var s []string
	for _, l := range m.leaves(t) {
		s = append(s, m.zeroOf(l.sort))
	}
	return Val{T: t, S: s}
}

func tname(t types.Type) string {
	if b, ok := t.(*types.Basic); ok && b.Kind() < types.UntypedBool {
		t = types.Typ[b.Kind()] // byte -> uint8, rune -> int32: one heap per type, not per spelling
	}
	s := types.TypeString(t, func(p *types.Package) string { return p.Name() })
	s = strings.ReplaceAll(s, "[]byte", "[]uint8")
	r := strings.NewReplacer("*", "P", "[", "_", "]", "_", ".", "_", " ", "", "{", "", "}", "", ";", "_", "(", "", ")", "", ",", "_", "/", "_")
	return r.Replace(s)
}

type engineErr string

func (e engineErr) Error() string { return string(e) }
