package main

import (
	"fmt"
	"go/ast"
	"go/token"
	"go/types"
	"os"
	"path/filepath"
	"sort"
	"strings"

	"golang.org/x/tools/go/packages"
	"golang.org/x/tools/go/ssa"
	"golang.org/x/tools/go/ssa/ssautil"
)

const modPrefix = "github.com/ProjectSerenity/firefly/kernel"

type memPlug interface {
	load(s *state, addr string, nbytes int64) string
	store(s *state, addr string, nbytes int64, v string)
}

type engine struct {
	repo      string
	prog      *ssa.Program
	pkgs      map[string]*packages.Package
	spkgs     map[string]*ssa.Package
	contracts map[string]*pkgContracts
	fset      *token.FileSet
	globalIDs map[*ssa.Global]int
	plug      memPlug
	typeIDs   map[string]int
	typeByID  map[int]types.Type
	strIDs    map[string]int
	funcIDs   map[*ssa.Function]int
	funcByID  map[int]*ssa.Function
	allFuncs  map[string]*ssa.Function // "pkgpath.key" -> function
	seamInit  map[*ssa.Global]*ssa.Function
	loadSecs  float64
	immInit   map[*ssa.Global]ssa.Value
	allocIDs  map[*ssa.Alloc]int
	lemmasUsed map[string]bool
	arrInit   map[*ssa.Global]map[int64]*ssa.Const
}

func loadEngine(repo string, patterns []string) (*engine, error) {
	cfg := &packages.Config{Mode: packages.LoadAllSyntax, Dir: filepath.Join(repo, "kernel"),
		Env: append(os.Environ(), "GOOS=linux", "GOARCH=amd64", "GOFLAGS=-mod=mod", "GOPROXY=off", "GOSUMDB=off", "GOTOOLCHAIN=local", "CGO_ENABLED=0")}
	pkgs, err := packages.Load(cfg, patterns...)
	if err != nil {
		return nil, err
	}
	var errs []string
	packages.Visit(pkgs, nil, func(p *packages.Package) {
		for _, e := range p.Errors {
			errs = append(errs, e.Error())
		}
	})
	if len(errs) > 0 {
		return nil, fmt.Errorf("package load errors:\n%s", strings.Join(errs, "\n"))
	}
	e := &engine{repo: repo, pkgs: map[string]*packages.Package{}, spkgs: map[string]*ssa.Package{}, contracts: map[string]*pkgContracts{},
		globalIDs: map[*ssa.Global]int{}, typeIDs: map[string]int{}, typeByID: map[int]types.Type{}, strIDs: map[string]int{}, funcIDs: map[*ssa.Function]int{}, funcByID: map[int]*ssa.Function{},
		allFuncs: map[string]*ssa.Function{}, seamInit: map[*ssa.Global]*ssa.Function{}, lemmasUsed: map[string]bool{}}
	e.fset = pkgs[0].Fset
	prog, _ := ssautil.AllPackages(pkgs, ssa.GlobalDebug)
	prog.Build()
	e.prog = prog
	packages.Visit(pkgs, nil, func(p *packages.Package) {
		e.pkgs[p.PkgPath] = p
		if sp := prog.Package(p.Types); sp != nil {
			e.spkgs[p.PkgPath] = sp
		}
	})
	for path, p := range e.pkgs {
		if !strings.HasPrefix(path, modPrefix) || len(p.GoFiles) == 0 {
			continue
		}
		pc, err := loadContracts(filepath.Dir(p.GoFiles[0]), path)
		if err != nil {
			return nil, err
		}
		e.contracts[path] = pc
	}
	for f := range ssautil.AllFunctions(prog) {
		if f.Pkg == nil {
			continue
		}
		e.allFuncs[f.Pkg.Pkg.Path()+"."+funcKey(f)] = f
	}
	// methods that are never called are not in AllFunctions: add them through the method sets
	for _, sp := range e.spkgs {
		if !strings.HasPrefix(sp.Pkg.Path(), modPrefix) {
			continue
		}
		for _, mem := range sp.Members {
			tn, ok := mem.(*ssa.Type)
			if !ok {
				continue
			}
			for _, t := range []types.Type{tn.Type(), types.NewPointer(tn.Type())} {
				ms := prog.MethodSets.MethodSet(t)
				for i := 0; i < ms.Len(); i++ {
					if f := prog.MethodValue(ms.At(i)); f != nil && f.Pkg != nil && f.Synthetic == "" {
						k := f.Pkg.Pkg.Path() + "." + funcKey(f)
						if _, ok := e.allFuncs[k]; !ok {
							e.allFuncs[k] = f
						}
					}
				}
			}
		}
	}
	e.findSeams()
	return e, nil
}

// funcKey: receiver-qualified name relative to the package, closures as Outer$k
func funcKey(f *ssa.Function) string {
	if f.Parent() != nil {
		// anonymous function: name is like "Outer$1"
		base := funcKey(f.Parent())
		n := f.Name()
		if i := strings.LastIndex(n, "$"); i >= 0 {
			return base + n[i:]
		}
		return base + "$" + n
	}
	if recv := f.Signature.Recv(); recv != nil {
		rt := recv.Type()
		if pt, ok := rt.(*types.Pointer); ok {
			if nt, ok := pt.Elem().(*types.Named); ok {
				return "(*" + nt.Obj().Name() + ")." + f.Name()
			}
		}
		if nt, ok := rt.(*types.Named); ok {
			return nt.Obj().Name() + "." + f.Name()
		}
	}
	return f.Name()
}

func (e *engine) findSeams() {
	// package-level function variables: initialiser from init, and check that
	// no non-init function stores to them
	stores := map[*ssa.Global][]*ssa.Function{}
	for f := range ssautil.AllFunctions(e.prog) {
		for _, b := range f.Blocks {
			for _, in := range b.Instrs {
				st, ok := in.(*ssa.Store)
				if !ok {
					continue
				}
				g, ok := st.Addr.(*ssa.Global)
				if !ok {
					continue
				}
				if _, isFn := g.Type().Underlying().(*types.Pointer).Elem().Underlying().(*types.Signature); !isFn {
					continue
				}
				if f.Name() == "init" && f.Pkg == g.Pkg {
					if fn, ok := st.Val.(*ssa.Function); ok {
						e.seamInit[g] = fn
					} else if mc, ok := st.Val.(*ssa.MakeClosure); ok {
						e.seamInit[g] = mc.Fn.(*ssa.Function)
					} else if ct, ok := st.Val.(*ssa.ChangeType); ok {
						if fn, ok := ct.X.(*ssa.Function); ok {
							e.seamInit[g] = fn
						}
					}
				} else {
					stores[g] = append(stores[g], f)
				}
			}
		}
	}
	for g, fs := range stores {
		if len(fs) > 0 {
			delete(e.seamInit, g) // rebound at run time: not a seam
		}
	}
}

func (e *engine) rawFieldOK(heap string) bool {
	for _, pc := range e.contracts {
		// `rawtype T`: every *T is an integer-made pointer (cells holding a *T are raw too)
		for rf := range pc.rawField {
			if strings.HasPrefix(rf, "@type:") {
				short := pc.pkgPath[strings.LastIndex(pc.pkgPath, "/")+1:]
				if heap == "E_P"+short+"_"+rf[6:] {
					return true
				}
			}
		}
		for rf := range pc.rawField {
			// heap is H_<pkg>_<Type>_<field>
			parts := strings.SplitN(rf, ".", 2)
			if len(parts) == 2 && strings.HasSuffix(heap, "_"+parts[0]+"_"+parts[1]) {
				return true
			}
		}
	}
	return false
}

func (e *engine) isRawField(t types.Type, field string) bool {
	nt, ok := t.(*types.Named)
	if !ok {
		return false
	}
	pc := e.contracts[nt.Obj().Pkg().Path()]
	return pc != nil && pc.rawField[nt.Obj().Name()+"."+field]
}

func (e *engine) typesPkg(path string) *types.Package {
	if p, ok := e.pkgs[path]; ok {
		return p.Types
	}
	return nil
}

func (e *engine) importedPkg(from *types.Package, name string) *types.Package {
	for _, imp := range from.Imports() {
		if imp.Name() == name {
			return imp
		}
	}
	// allow referring to any loaded kernel package by its name
	for path, p := range e.pkgs {
		if p.Types.Name() == name && strings.HasPrefix(path, modPrefix) {
			return p.Types
		}
	}
	for _, p := range e.pkgs {
		if p.Types.Name() == name {
			return p.Types
		}
	}
	return nil
}

func (e *engine) globalFor(v *types.Var) *ssa.Global {
	if v.Pkg() == nil {
		return nil
	}
	sp := e.prog.Package(v.Pkg())
	if sp == nil {
		return nil
	}
	g, _ := sp.Members[v.Name()].(*ssa.Global)
	return g
}

func (e *engine) ssaFuncFor(f *types.Func) *ssa.Function { return e.prog.FuncValue(f) }

func (e *engine) globalID(g *ssa.Global) int {
	if id, ok := e.globalIDs[g]; ok {
		return id
	}
	id := 1000 + len(e.globalIDs)
	e.globalIDs[g] = id
	return id
}

func (e *engine) typeID(t types.Type) int {
	k := types.TypeString(t, nil)
	if id, ok := e.typeIDs[k]; ok {
		return id
	}
	id := 1 + len(e.typeIDs)
	e.typeIDs[k] = id
	e.typeByID[id] = t
	return id
}

func (e *engine) stringID(s string) int {
	if id, ok := e.strIDs[s]; ok {
		return id
	}
	id := 500000 + len(e.strIDs)
	e.strIDs[s] = id
	return id
}

func (e *engine) funcID(f *ssa.Function) int {
	if f == nil {
		return 0
	}
	if id, ok := e.funcIDs[f]; ok {
		return id
	}
	id := 700000 + len(e.funcIDs)
	e.funcIDs[f] = id
	e.funcByID[id] = f
	return id
}

func (e *engine) findSpec(from *types.Package, name string) *specFun {
	if i := strings.Index(name, "."); i >= 0 {
		if p := e.importedPkg(from, name[:i]); p != nil {
			if pc := e.contracts[p.Path()]; pc != nil {
				return pc.specs[name[i+1:]]
			}
		}
		return nil
	}
	if pc := e.contracts[from.Path()]; pc != nil {
		if sf := pc.specs[name]; sf != nil {
			return sf
		}
	}
	return nil
}

// contractFor returns the contract of a function, if any
func (e *engine) contractFor(f *ssa.Function) *funcContract {
	if f == nil || f.Pkg == nil {
		return nil
	}
	pc := e.contracts[f.Pkg.Pkg.Path()]
	if pc == nil {
		// a function of a package without a contract file (standard library): an assumed
		// contract `func pkg.Name(...)` may be given in any contract file
		for _, key := range externKeys(f) {
			for _, pc := range e.contracts {
				if fc := pc.funcs[key]; fc != nil {
					return fc
				}
			}
		}
		return nil
	}
	if fc := pc.funcs[funcKey(f)]; fc != nil {
		return fc
	}
	// no contract in its own package's file: a (trusted) view of the function stated in
	// another package's file as `func pkg.Name(...)`
	for _, key := range externKeys(f) {
		for _, opc := range e.contracts {
			if fc := opc.funcs[key]; fc != nil {
				return fc
			}
		}
	}
	return nil
}

// externKeys: how a function of another package is named in a contract header:
// pkg.Func, (*pkg.T).Method, pkg.T.Method
func externKeys(f *ssa.Function) []string {
	p := f.Pkg.Pkg.Name()
	k := funcKey(f)
	keys := []string{p + "." + k}
	if strings.HasPrefix(k, "(*") {
		keys = append(keys, "(*"+p+"."+k[2:])
	} else if strings.Contains(k, ".") {
		keys = append(keys, p+"."+k)
	}
	return keys
}

// ifaceContract: contract for an interface method, declared as
//   //@ func (io.Writer) Write(p []byte) (n int, err error)   [in any package's file]
func (e *engine) ifaceContract(recv types.Type, method string) *funcContract {
	name := types.TypeString(recv, func(p *types.Package) string { return p.Name() })
	for _, pc := range e.contracts {
		if fc := pc.funcs[name+"."+method]; fc != nil {
			return fc
		}
	}
	// unqualified, in the contract file of the package that defines the interface
	if nt, ok := recv.(*types.Named); ok && nt.Obj().Pkg() != nil {
		if pc := e.contracts[nt.Obj().Pkg().Path()]; pc != nil {
			if fc := pc.funcs[nt.Obj().Name()+"."+method]; fc != nil {
				return fc
			}
		}
	}
	return nil
}

// ---- loops ---------------------------------------------------------------------

type loopInfo struct {
	header *ssa.BasicBlock
	blocks map[*ssa.BasicBlock]bool
	ord    int // 1-based source order
	stmt   ast.Stmt
}

func isLoopHeader(b *ssa.BasicBlock) bool {
	for _, p := range b.Preds {
		if b.Dominates(p) {
			return true
		}
	}
	return false
}

var loopCache = map[*ssa.Function][]*loopInfo{}

func loopsOf(f *ssa.Function) []*loopInfo {
	if l, ok := loopCache[f]; ok {
		return l
	}
	var out []*loopInfo
	for _, b := range f.Blocks {
		if !isLoopHeader(b) {
			continue
		}
		li := &loopInfo{header: b, blocks: map[*ssa.BasicBlock]bool{b: true}}
		// natural loop: all blocks that reach a latch without passing the header
		var work []*ssa.BasicBlock
		for _, p := range b.Preds {
			if b.Dominates(p) && !li.blocks[p] {
				li.blocks[p] = true
				work = append(work, p)
			}
		}
		for len(work) > 0 {
			x := work[len(work)-1]
			work = work[:len(work)-1]
			for _, p := range x.Preds {
				if !li.blocks[p] {
					li.blocks[p] = true
					work = append(work, p)
				}
			}
		}
		out = append(out, li)
	}
	sort.Slice(out, func(i, j int) bool { return out[i].header.Index < out[j].header.Index })
	// source statements
	var stmts []ast.Stmt
	if syn := f.Syntax(); syn != nil {
		var body *ast.BlockStmt
		switch s := syn.(type) {
		case *ast.FuncDecl:
			body = s.Body
		case *ast.FuncLit:
			body = s.Body
		}
		if body != nil {
			ast.Inspect(body, func(n ast.Node) bool {
				switch n.(type) {
				case *ast.FuncLit:
					return false
				case *ast.ForStmt, *ast.RangeStmt:
					stmts = append(stmts, n.(ast.Stmt))
				}
				return true
			})
		}
	}
	for i, li := range out {
		li.ord = i + 1
		if len(stmts) == len(out) {
			li.stmt = stmts[i]
		}
	}
	loopCache[f] = out
	return out
}

func loopFor(f *ssa.Function, header *ssa.BasicBlock) *loopInfo {
	for _, li := range loopsOf(f) {
		if li.header == header {
			return li
		}
	}
	return nil
}

func (e *engine) posStr(p token.Pos) string {
	if !p.IsValid() {
		return "?"
	}
	ps := e.fset.Position(p)
	rel, err := filepath.Rel(e.repo, ps.Filename)
	if err != nil {
		rel = ps.Filename
	}
	return fmt.Sprintf("%s:%d:%d", rel, ps.Line, ps.Column)
}

func (e *engine) srcText(n ast.Node) string {
	ps, pe := e.fset.Position(n.Pos()), e.fset.Position(n.End())
	data, err := os.ReadFile(ps.Filename)
	if err != nil || pe.Offset > len(data) {
		return ""
	}
	return string(data[ps.Offset:pe.Offset])
}

// isLocalVar: the identifier denotes a local variable or parameter (not a
// struct field selected through x.f, not a package-level object)
func (e *engine) isLocalVar(fn *ssa.Function, id *ast.Ident) bool {
	if fn.Pkg == nil {
		return true
	}
	p := e.pkgs[fn.Pkg.Pkg.Path()]
	if p == nil || p.TypesInfo == nil {
		return true
	}
	obj := p.TypesInfo.Uses[id]
	if obj == nil {
		obj = p.TypesInfo.Defs[id]
	}
	v, ok := obj.(*types.Var)
	if !ok {
		return false
	}
	if v.IsField() {
		return false
	}
	return v.Parent() != v.Pkg().Scope()
}
