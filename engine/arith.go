package main

// Machine arithmetic, shared by the symbolic executor (code) and the contract
// evaluator (specs).  bv mode: exact bit-vector semantics of the Go spec.
// int mode: integers are SMT Ints; code-level add/sub wrap exactly, code-level
// mul carries a generated no-overflow side obligation; spec-level arithmetic
// (obl == nil) is mathematical.

import (
	"fmt"
	"go/token"
	"go/types"
	"math/big"
)

type oblFn func(kind, goal string)

const tokADD = token.ADD

func (u *unit) mat(v Val, t types.Type) Val {
	if v.K == nil {
		return v
	}
	if t == nil || isUntyped(t) {
		t = types.Typ[types.Int]
	}
	if !isInteger(t) {
		panic(engineErr(fmt.Sprintf("constant %s used as %s", v.K, t)))
	}
	return Val{T: t, S: []string{u.m.intConst(v.K, width(t))}}
}

func (u *unit) constInt(n int64, t types.Type) Val {
	return Val{T: t, S: []string{u.m.intConst(big.NewInt(n), width(t))}}
}

// resize converts integer term x of type from to type to
func (u *unit) resize(x string, from, to types.Type, spec bool) string {
	fw, tw := width(from), width(to)
	if u.m.intMode {
		if spec && tw >= fw {
			return x // spec integers are mathematical; only explicit narrowing truncates
		}
		fs, ts := isSigned(from), isSigned(to)
		// value preserved when target range contains source range
		if (fs == ts && tw >= fw) || (!fs && ts && tw > fw) {
			return x
		}
		if n, ok := intLit(x); ok {
			r := new(big.Int).Mod(n, pow2(tw))
			if ts && r.Cmp(pow2(tw-1)) >= 0 {
				r.Sub(r, pow2(tw))
			}
			return bigInt(r)
		}
		r := fmt.Sprintf("(mod %s %s)", x, pow2(tw))
		if ts {
			return fmt.Sprintf("(let ((r!c %s)) (ite (>= r!c %s) (- r!c %s) r!c))", r, pow2(tw-1), pow2(tw))
		}
		return r
	}
	if v, _, ok := bvLit(x); ok {
		if isSigned(from) && v.Cmp(pow2(fw-1)) >= 0 {
			v = new(big.Int).Sub(v, pow2(fw))
		}
		return u.m.intConst(v, tw)
	}
	switch {
	case fw == tw:
		return x
	case fw > tw:
		return fmt.Sprintf("((_ extract %d 0) %s)", tw-1, x)
	case isSigned(from):
		return fmt.Sprintf("((_ sign_extend %d) %s)", tw-fw, x)
	default:
		return fmt.Sprintf("((_ zero_extend %d) %s)", tw-fw, x)
	}
}

func cmpOp(op token.Token) bool {
	switch op {
	case token.EQL, token.NEQ, token.LSS, token.LEQ, token.GTR, token.GEQ:
		return true
	}
	return false
}

// arith evaluates a binary operation on two integer values of the same type
// (shifts: b may have another unsigned type).
func (u *unit) arith(op token.Token, a, b Val, obl oblFn) Val {
	// untyped constant handling
	if a.K != nil && b.K != nil {
		if r, ok := constFold(op, a.K, b.K); ok {
			return r
		}
	}
	if op == token.SHL || op == token.SHR {
		a = u.mat(a, nil)
		if b.K != nil {
			b = u.mat(b, types.Typ[types.Uint64])
		}
	} else {
		if a.K != nil {
			a = u.mat(a, b.T)
		}
		if b.K != nil {
			b = u.mat(b, a.T)
		}
	}
	t := a.T
	rt := t
	if cmpOp(op) {
		rt = types.Typ[types.Bool]
	}
	x, y := a.S[0], b.S[0]
	sg := isSigned(t)
	w := width(t)
	if u.m.intMode {
		return Val{T: rt, S: []string{u.intArith(op, x, y, sg, w, b.T, obl)}}
	}
	// constant folding on literals
	if xv, _, okx := bvLit(x); okx {
		if yv, _, oky := bvLit(y); oky && !sg {
			m := pow2(w)
			switch op {
			case token.ADD:
				return Val{T: rt, S: []string{u.m.intConst(new(big.Int).Add(xv, yv), w)}}
			case token.SUB:
				return Val{T: rt, S: []string{u.m.intConst(new(big.Int).Sub(xv, yv), w)}}
			case token.MUL:
				return Val{T: rt, S: []string{u.m.intConst(new(big.Int).Mul(xv, yv), w)}}
			case token.AND:
				return Val{T: rt, S: []string{u.m.intConst(new(big.Int).And(xv, yv), w)}}
			case token.OR:
				return Val{T: rt, S: []string{u.m.intConst(new(big.Int).Or(xv, yv), w)}}
			case token.EQL:
				return Val{T: rt, S: []string{fmt.Sprint(xv.Cmp(yv) == 0)}}
			case token.NEQ:
				return Val{T: rt, S: []string{fmt.Sprint(xv.Cmp(yv) != 0)}}
			case token.LSS:
				return Val{T: rt, S: []string{fmt.Sprint(xv.Cmp(yv) < 0)}}
			case token.LEQ:
				return Val{T: rt, S: []string{fmt.Sprint(xv.Cmp(yv) <= 0)}}
			case token.GTR:
				return Val{T: rt, S: []string{fmt.Sprint(xv.Cmp(yv) > 0)}}
			case token.GEQ:
				return Val{T: rt, S: []string{fmt.Sprint(xv.Cmp(yv) >= 0)}}
			}
			_ = m
		}
	}
	f := func(o string) Val { return Val{T: rt, S: []string{fmt.Sprintf("(%s %s %s)", o, x, y)}} }
	pick := func(us, si string) string {
		if sg {
			return si
		}
		return us
	}
	switch op {
	case token.ADD:
		return Val{T: rt, S: []string{bvadd(x, y)}}
	case token.SUB:
		return f("bvsub")
	case token.MUL:
		return f("bvmul")
	case token.QUO, token.REM:
		if obl != nil {
			obl("div-by-zero", not(eq(y, u.m.intConst(big.NewInt(0), w))))
		}
		if op == token.QUO {
			return f(pick("bvudiv", "bvsdiv"))
		}
		return f(pick("bvurem", "bvsrem"))
	case token.AND:
		return f("bvand")
	case token.OR:
		return f("bvor")
	case token.XOR:
		return f("bvxor")
	case token.AND_NOT:
		return Val{T: rt, S: []string{fmt.Sprintf("(bvand %s (bvnot %s))", x, y)}}
	case token.SHL, token.SHR:
		yw := width(b.T)
		var sh string
		if isSigned(b.T) && obl != nil {
			obl("negative-shift", fmt.Sprintf("(bvsge %s %s)", y, u.m.intConst(big.NewInt(0), yw)))
		}
		switch {
		case yw == w:
			sh = y
		case yw < w:
			sh = fmt.Sprintf("((_ zero_extend %d) %s)", w-yw, y)
		default:
			sh = fmt.Sprintf("(ite (bvuge %s %s) %s ((_ extract %d 0) %s))", y, u.m.intConst(big.NewInt(w), yw), u.m.intConst(big.NewInt(w), w), w-1, y)
		}
		if v, _, ok := bvLit(y); ok {
			if v.Cmp(big.NewInt(w)) >= 0 {
				sh = u.m.intConst(big.NewInt(w), w)
			} else {
				sh = u.m.intConst(v, w)
			}
		}
		o := "bvshl"
		if op == token.SHR {
			o = pick("bvlshr", "bvashr")
		}
		return Val{T: rt, S: []string{fmt.Sprintf("(%s %s %s)", o, x, sh)}}
	case token.EQL:
		return Val{T: rt, S: []string{eq(x, y)}}
	case token.NEQ:
		return Val{T: rt, S: []string{not(eq(x, y))}}
	case token.LSS:
		return f(pick("bvult", "bvslt"))
	case token.LEQ:
		return f(pick("bvule", "bvsle"))
	case token.GTR:
		return f(pick("bvugt", "bvsgt"))
	case token.GEQ:
		return f(pick("bvuge", "bvsge"))
	}
	panic(engineErr("binop " + op.String()))
}

func constFold(op token.Token, x, y *big.Int) (Val, bool) {
	bi := func(v *big.Int) (Val, bool) { return Val{T: types.Typ[types.UntypedInt], K: v}, true }
	bo := func(b bool) (Val, bool) { return Val{T: types.Typ[types.Bool], S: []string{fmt.Sprint(b)}}, true }
	switch op {
	case token.ADD:
		return bi(new(big.Int).Add(x, y))
	case token.SUB:
		return bi(new(big.Int).Sub(x, y))
	case token.MUL:
		return bi(new(big.Int).Mul(x, y))
	case token.QUO:
		if y.Sign() != 0 {
			return bi(new(big.Int).Quo(x, y))
		}
	case token.REM:
		if y.Sign() != 0 {
			return bi(new(big.Int).Rem(x, y))
		}
	case token.SHL:
		return bi(new(big.Int).Lsh(x, uint(y.Int64())))
	case token.SHR:
		return bi(new(big.Int).Rsh(x, uint(y.Int64())))
	case token.AND:
		return bi(new(big.Int).And(x, y))
	case token.OR:
		return bi(new(big.Int).Or(x, y))
	case token.XOR:
		return bi(new(big.Int).Xor(x, y))
	case token.AND_NOT:
		return bi(new(big.Int).AndNot(x, y))
	case token.EQL:
		return bo(x.Cmp(y) == 0)
	case token.NEQ:
		return bo(x.Cmp(y) != 0)
	case token.LSS:
		return bo(x.Cmp(y) < 0)
	case token.LEQ:
		return bo(x.Cmp(y) <= 0)
	case token.GTR:
		return bo(x.Cmp(y) > 0)
	case token.GEQ:
		return bo(x.Cmp(y) >= 0)
	}
	return Val{}, false
}

func (u *unit) wrapInt(r string, sg bool, w int64) string {
	if n, ok := intLit(r); ok {
		v := new(big.Int).Mod(n, pow2(w))
		if sg && v.Cmp(pow2(w-1)) >= 0 {
			v.Sub(v, pow2(w))
		}
		return bigInt(v)
	}
	hi := pow2(w).String()
	if sg {
		h := pow2(w - 1).String()
		return fmt.Sprintf("(let ((r!w %s)) (ite (>= r!w %s) (- r!w %s) (ite (< r!w (- %s)) (+ r!w %s) r!w)))", r, h, hi, h, hi)
	}
	return fmt.Sprintf("(let ((r!w %s)) (ite (< r!w 0) (+ r!w %s) (ite (>= r!w %s) (- r!w %s) r!w)))", r, hi, hi, hi)
}

func (u *unit) intArith(op token.Token, a, b string, sg bool, w int64, bt types.Type, obl oblFn) string {
	spec := obl == nil
	inr := func(x string) string {
		if sg {
			return fmt.Sprintf("(and (<= (- %s) %s) (< %s %s))", pow2(w-1), x, x, pow2(w-1))
		}
		return fmt.Sprintf("(and (<= 0 %s) (< %s %s))", x, x, pow2(w))
	}
	switch op {
	case token.ADD, token.SUB:
		var r string
		if op == token.ADD {
			r = sadd(a, b)
		} else {
			if y, ok := intLit(b); ok {
				r = sadd(a, bigInt(new(big.Int).Neg(y)))
			} else {
				r = fmt.Sprintf("(- %s %s)", a, b)
			}
		}
		if spec {
			return r
		}
		return u.wrapInt(r, sg, w)
	case token.MUL:
		r := fmt.Sprintf("(* %s %s)", a, b)
		if x, ok := intLit(a); ok {
			if y, ok := intLit(b); ok {
				r = bigInt(new(big.Int).Mul(x, y))
			}
		}
		if !spec {
			obl("mul-overflow", inr(r))
		}
		return r
	case token.QUO, token.REM:
		if !spec {
			obl("div-by-zero", not(eq(b, "0")))
		}
		if !sg {
			if op == token.QUO {
				return fmt.Sprintf("(div %s %s)", a, b)
			}
			return fmt.Sprintf("(mod %s %s)", a, b)
		}
		// Go truncates toward zero
		q := fmt.Sprintf("(ite (>= %s 0) (ite (> %s 0) (div %s %s) (- (div %s (- %s)))) (ite (> %s 0) (- (div (- %s) %s)) (div (- %s) (- %s))))", a, b, a, b, a, b, b, a, b, a, b)
		if op == token.QUO {
			return q
		}
		return fmt.Sprintf("(- %s (* %s %s))", a, b, q)
	case token.SHL, token.SHR:
		k, ok := intLit(b)
		if !ok {
			return fmt.Sprintf("(%s %s %s)", u.uf(op, w, sg), a, b)
		}
		if k.Cmp(big.NewInt(w)) >= 0 {
			if op == token.SHL || !sg {
				return "0"
			}
			return fmt.Sprintf("(ite (< %s 0) (- 1) 0)", a)
		}
		p := pow2(k.Int64())
		if op == token.SHL {
			r := fmt.Sprintf("(* %s %s)", a, p)
			// shifts keep their machine meaning in specs too (bits shifted out are lost)
			return u.wrapMod(r, sg, w)
		}
		return fmt.Sprintf("(div %s %s)", a, p) // floor division = arithmetic shift
	case token.AND:
		if k, ok := intLit(b); ok && !sg {
			return u.andConst(a, k, w)
		}
		if k, ok := intLit(a); ok && !sg {
			return u.andConst(b, k, w)
		}
		return fmt.Sprintf("(%s %s %s)", u.uf(op, w, sg), a, b)
	case token.AND_NOT:
		if k, ok := intLit(b); ok && !sg {
			m := new(big.Int).Sub(pow2(w), big.NewInt(1))
			return u.andConst(a, new(big.Int).AndNot(m, k), w)
		}
		return fmt.Sprintf("(%s %s %s)", u.uf(op, w, sg), a, b)
	case token.OR, token.XOR:
		if x, ok := intLit(a); ok {
			if y, ok := intLit(b); ok {
				if op == token.OR {
					return bigInt(new(big.Int).Or(x, y))
				}
				return bigInt(new(big.Int).Xor(x, y))
			}
		}
		return fmt.Sprintf("(%s %s %s)", u.uf(op, w, sg), a, b)
	case token.EQL:
		return eq(a, b)
	case token.NEQ:
		return not(eq(a, b))
	case token.LSS:
		return fmt.Sprintf("(< %s %s)", a, b)
	case token.LEQ:
		return fmt.Sprintf("(<= %s %s)", a, b)
	case token.GTR:
		return fmt.Sprintf("(> %s %s)", a, b)
	case token.GEQ:
		return fmt.Sprintf("(>= %s %s)", a, b)
	}
	panic(engineErr("int binop " + op.String()))
}

func (u *unit) wrapMod(r string, sg bool, w int64) string {
	if !sg {
		return fmt.Sprintf("(mod %s %s)", r, pow2(w))
	}
	return fmt.Sprintf("(let ((r!m (mod %s %s))) (ite (>= r!m %s) (- r!m %s) r!m))", r, pow2(w), pow2(w-1), pow2(w))
}

func (u *unit) andConst(a string, k *big.Int, w int64) string {
	if k.Sign() == 0 {
		return "0"
	}
	full := new(big.Int).Sub(pow2(w), big.NewInt(1))
	if k.Cmp(full) == 0 {
		return a
	}
	// low mask 2^n-1
	k1 := new(big.Int).Add(k, big.NewInt(1))
	if new(big.Int).And(k, k1).Sign() == 0 {
		return fmt.Sprintf("(mod %s %s)", a, k1)
	}
	// high mask: ^(2^n-1) within width
	inv := new(big.Int).AndNot(full, k)
	inv1 := new(big.Int).Add(inv, big.NewInt(1))
	if new(big.Int).And(inv, inv1).Sign() == 0 {
		return fmt.Sprintf("(- %s (mod %s %s))", a, a, inv1)
	}
	// contiguous field: (a div 2^lo mod 2^n) * 2^lo
	lo := int64(0)
	for k.Bit(int(lo)) == 0 {
		lo++
	}
	sh := new(big.Int).Rsh(k, uint(lo))
	sh1 := new(big.Int).Add(sh, big.NewInt(1))
	if new(big.Int).And(sh, sh1).Sign() == 0 {
		return fmt.Sprintf("(* (mod (div %s %s) %s) %s)", a, pow2(lo), sh1, pow2(lo))
	}
	return fmt.Sprintf("(%s %s %s)", u.uf(token.AND, w, false), a, k)
}

// uf returns an uninterpreted function standing for a bit operation that the
// int encoding does not interpret; code and specs computing the same
// expression agree on it.
func (u *unit) uf(op token.Token, w int64, sg bool) string {
	names := map[token.Token]string{token.AND: "and", token.OR: "or", token.XOR: "xor", token.SHL: "shl", token.SHR: "shr", token.AND_NOT: "andnot"}
	s := ""
	if sg {
		s = "s"
	}
	n := fmt.Sprintf("bit_%s%s%d", names[op], s, w)
	u.notes["int mode: bit operation "+n+" left uninterpreted"] = true
	return u.declareFun(n, []string{"Int", "Int"}, "Int")
}

func (u *unit) unary(op token.Token, a Val, obl oblFn) Val {
	switch op {
	case token.NOT:
		return Val{T: a.T, S: []string{not(a.S[0])}}
	case token.SUB:
		if a.K != nil {
			return Val{T: a.T, K: new(big.Int).Neg(a.K)}
		}
		if u.m.intMode {
			r := fmt.Sprintf("(- %s)", a.S[0])
			if obl == nil {
				return Val{T: a.T, S: []string{r}}
			}
			return Val{T: a.T, S: []string{u.wrapInt(r, isSigned(a.T), width(a.T))}}
		}
		return Val{T: a.T, S: []string{"(bvneg " + a.S[0] + ")"}}
	case token.XOR:
		if a.K != nil {
			return Val{T: a.T, K: new(big.Int).Not(a.K)}
		}
		if u.m.intMode {
			if isSigned(a.T) {
				return Val{T: a.T, S: []string{fmt.Sprintf("(- (- %s) 1)", a.S[0])}}
			}
			return Val{T: a.T, S: []string{fmt.Sprintf("(- %s %s)", new(big.Int).Sub(pow2(width(a.T)), big.NewInt(1)), a.S[0])}}
		}
		return Val{T: a.T, S: []string{"(bvnot " + a.S[0] + ")"}}
	case token.ADD:
		return a
	}
	panic(engineErr("unary " + op.String()))
}
