package main

import (
	"regexp"
	"fmt"
	"go/types"
	"sort"
	"strings"

	"golang.org/x/tools/go/ssa"
)

// fieldRef tags a pointer value that is the address of a scalar struct field:
// such fields live in the per-(struct,field) heap keyed by the *instance*
// pointer (Burstall-Bornat with byte offsets).
type fieldRef struct {
	heap     string // H_<Struct>_<field>
	ref, off string // instance pointer
}

type oblig struct {
	second string // thorough tier: the second solver that also discharged it
	results   []Val             // values returned on this path (ensures obligations)
	postHeaps map[string]string // heaps at the return (ensures obligations)
	firstRes string // result of the first pass when a rescue pass was needed
	name   string // stable base name  <func>#<kind>.<label>@<site>
	path   int
	kind   string
	clause string // contract clause text or description
	pos    string
	decls  []string
	pc     []string
	goal   string
	hints  []string
	deep   bool
	// result
	res     string // unsat | sat | unknown | timeout
	solver  string
	secs    float64
	model   string
	qsize   int
	knownBy string
	qfile   string
	except  string
	goalSk  string   // goal with positive universal quantifiers skolemised
	insts2  []string // wider instance set (neighbours of skolems, array index terms), second ground attempt
	insts   []string // ground instances of quantified hypotheses at the skolem constants
	hasQ    bool
	cands   []binder // extra instantiation candidates (ghost loop counters, ...)
	ground  bool     // discharged by the ground (quantifier-free hypotheses) query
	kfEntry *knownFinding
}

// unit = one function under verification
type unit struct {
	eng     *engine
	fn      *ssa.Function
	ct      *funcContract
	m       mode
	decls   map[string]string // symbol -> declaration
	order   []string
	fresh   int
	obligs  []*oblig
	notes   map[string]bool // assumptions recorded while executing
	npaths  int
	nextRef int
	closures map[string]*closureVal
	curProps []string
	siteOrd map[string]int
	covers  []*oblig
	inlined map[string]bool
	kf      *knownFindings
	ghostTypes map[string]types.Type
	rawBoxed bool
	retries  int
	curLoopSpec *loopSpec // the loop whose clauses are being evaluated
	implFacts  map[string]bool
	implAxioms []string
	codeLoad bool // a load instruction of the code (not a contract expression) is being executed
	rawStored  map[string]bool // typed heaps that received an integer-made pointer (`rawstores`)
	typedLoads map[string]bool // typed pointer heaps loaded in this unit
	cutHeaders map[*ssa.BasicBlock]bool
	modBases map[string]bool
	cutDone map[*ssa.BasicBlock]bool
	entryPC []string
	entryVals map[ssa.Value]Val
	entryOld *state
	lemma   *specFun
	returns int
}

type closureVal struct {
	mc    *ssa.MakeClosure
	fn    *ssa.Function
	binds []Val
}

type nameBinding struct {
	v      ssa.Value
	isAddr bool
}

type frame struct {
	b      *ssa.BasicBlock
	idx    int
	call   ssa.CallInstruction
	names  map[string]nameBinding
	fn     *ssa.Function
	defers []*ssa.Defer
}

type state struct {
	implSeen map[string]bool
	cvBinds []Val // bindings of the closure whose contract is being applied
	callResult *Val // result of the call an `after call` clause is attached to (single-valued or tuple)
	callArgs map[string]Val // operands of the call a site clause is attached to, by parameter name
	u       *unit
	vals    map[ssa.Value]Val
	heaps   map[string]string
	hsort   map[string]string
	pc      []string
	names   map[string]nameBinding
	frames  []frame
	curFn   *ssa.Function
	visits  map[*ssa.BasicBlock]int
	inLoop  map[*ssa.BasicBlock]*loopCtx
	ghost   map[string]Val
	old     *state
	hints   []string
	defers  []*ssa.Defer
	dead    bool
	curLoopPre *state
	cands   []binder
	gen     string // heap/ghost symbol generation: "" at function entry, "cN" on a path started at cut point N
	cutStart bool  // this state is the generic start of a cut loop (skip the cut once)
	cutMode bool   // started at a loop cut point: values defined before the loop are fresh symbols
	deferArgs map[*ssa.Defer][]Val
}

type loopCtx struct {
	pre     *state
	measure []string
	mtypes  []types.Type
}

func (s *state) clone() *state {
	n := *s
	n.vals = make(map[ssa.Value]Val, len(s.vals))
	for k, v := range s.vals {
		n.vals[k] = v
	}
	n.heaps = make(map[string]string, len(s.heaps))
	for k, v := range s.heaps {
		n.heaps[k] = v
	}
	n.hsort = s.hsort // shared, append-only per unit
	n.pc = append([]string(nil), s.pc...)
	n.names = make(map[string]nameBinding, len(s.names))
	for k, v := range s.names {
		n.names[k] = v
	}
	n.frames = append([]frame(nil), s.frames...)
	n.visits = make(map[*ssa.BasicBlock]int, len(s.visits))
	for k, v := range s.visits {
		n.visits[k] = v
	}
	n.inLoop = make(map[*ssa.BasicBlock]*loopCtx, len(s.inLoop))
	for k, v := range s.inLoop {
		n.inLoop[k] = v
	}
	n.ghost = make(map[string]Val, len(s.ghost))
	for k, v := range s.ghost {
		n.ghost[k] = v
	}
	n.hints = append([]string(nil), s.hints...)
	n.defers = append([]*ssa.Defer(nil), s.defers...)
	n.cands = append([]binder(nil), s.cands...)
	return &n
}

// snapshot keeps only what contract evaluation in an earlier state needs
func (s *state) snapshot() *state {
	n := s.clone()
	return n
}

func (u *unit) declare(name, sort string) string {
	q := "|" + name + "|"
	if _, ok := u.decls[q]; !ok {
		u.decls[q] = fmt.Sprintf("(declare-const %s %s)", q, sort)
		u.order = append(u.order, q)
	}
	return q
}

func (u *unit) declareFun(name string, args []string, ret string) string {
	q := "|" + name + "|"
	if _, ok := u.decls[q]; !ok {
		u.decls[q] = fmt.Sprintf("(declare-fun %s (%s) %s)", q, strings.Join(args, " "), ret)
		u.order = append(u.order, q)
	}
	return q
}

func (u *unit) newSym(prefix, sort string) string {
	u.fresh++
	return u.declare(fmt.Sprintf("%s!%d", prefix, u.fresh), sort)
}

func (s *state) symVal(prefix string, t types.Type) Val {
	var v []string
	for _, l := range s.u.m.leaves(t) {
		x := s.u.newSym(prefix+l.path, l.sort)
		v = append(v, x)
	}
	val := Val{T: t, S: v}
	s.assumeTypeFacts(val)
	return val
}

// assumeTypeFacts adds the facts every well-typed Go value satisfies: integer
// ranges in int mode, typed references are never the RAW marker, lengths are
// non-negative.
func (s *state) assumeTypeFacts(v Val) {
	ls := s.u.m.leaves(v.T)
	for i, l := range ls {
		if f := s.leafFact(l, v.S[i]); f != "" {
			s.pc = append(s.pc, f)
		}
	}
	// slice header sanity: 0 <= len <= cap
	s.sliceFacts(v.T, v.S, ls)
}

func (s *state) sliceFacts(t types.Type, S []string, ls []leaf) {
	for i, l := range ls {
		if strings.HasSuffix(l.path, ".cap") && i >= 1 && strings.HasSuffix(ls[i-1].path, ".len") {
			ln, cp := S[i-1], S[i]
			if s.u.m.intMode {
				s.pc = append(s.pc, fmt.Sprintf("(<= %s %s)", ln, cp))
			} else {
				s.pc = append(s.pc, fmt.Sprintf("(bvsle %s %s)", ln, cp))
			}
			// a nil slice has no elements
			if i >= 3 && strings.HasSuffix(ls[i-3].path, ".ref") {
				if _, lit := intLit(S[i-3]); !lit {
					s.pc = append(s.pc, fmt.Sprintf("(=> (= %s 0) (= %s %s))", S[i-3], cp, s.u.m.offConst(0)))
				}
			}
		}
	}
}

// a term that selects directly from an entry-state heap symbol (generation @0)
var entryHeapRead = regexp.MustCompile(`^\(select \(select \|[HE]_[^|]*@0\| `)

func (s *state) leafFact(l leaf, x string) string {
	m := s.u.m
	switch {
	case strings.HasSuffix(l.path, ".ref") || strings.HasSuffix(l.path, ".box"):
		if _, ok := intLit(x); ok {
			return ""
		}
		if s.u.nextRef > 0 && entryHeapRead.MatchString(x) && !strings.Contains(x, "(store ") {
			// read straight from a heap as it was on entry: the object existed before this function ran
			return fmt.Sprintf("(>= %s 0)", x)
		}
		if s.u.nextRef > 0 {
			// a reference is either pre-existing (>= 0) or one of the objects allocated so far on this path
			return fmt.Sprintf("(or (>= %s 0) (and (<= %s (- 10)) (>= %s (- %d))))", x, x, x, 9+s.u.nextRef)
		}
		return fmt.Sprintf("(>= %s 0)", x)
	case strings.HasSuffix(l.path, ".len") || strings.HasSuffix(l.path, ".cap"):
		if m.intMode {
			return fmt.Sprintf("(and (<= 0 %s) (< %s 9223372036854775808))", x, x)
		}
		return fmt.Sprintf("(bvsge %s (_ bv0 64))", x)
	case strings.HasSuffix(l.path, ".off"):
		if m.intMode {
			return fmt.Sprintf("(and (<= 0 %s) (< %s 18446744073709551616))", x, x)
		}
		return ""
	}
	if m.intMode && l.t != nil && isInteger(l.t) {
		return intRange(l.t, x)
	}
	return ""
}

func intRange(t types.Type, x string) string {
	w := width(t)
	if isSigned(t) {
		return fmt.Sprintf("(and (<= (- %s) %s) (< %s %s))", pow2(w-1), x, x, pow2(w-1))
	}
	return fmt.Sprintf("(and (<= 0 %s) (< %s %s))", x, x, pow2(w))
}

// ---- heaps -----------------------------------------------------------------

func (s *state) heapSortOf(elemSort string) string {
	return fmt.Sprintf("(Array Int (Array %s %s))", s.u.m.offSort(), elemSort)
}

func (s *state) heap(name, elemSort string) string {
	if h, ok := s.heaps[name]; ok {
		return h
	}
	var srt string
	if name == "M" {
		srt = "(Array (_ BitVec 64) (_ BitVec 8))"
	} else {
		srt = s.heapSortOf(elemSort)
	}
	gen := s.gen
	if s.cutMode && !s.u.mayModify(name) && !strings.Contains(gen, "~") {
		gen = "" // not in the unit's modifies clause: still the entry heap
	}
	q := s.u.declare(name+"@0"+gen, srt)
	s.heaps[name] = q
	s.hsort[name] = elemSort
	return q
}

func (s *state) rd(name, sort, ref, off string) string {
	return fmt.Sprintf("(select (select %s %s) %s)", s.heap(name, sort), ref, off)
}

func (s *state) wr(name, sort, ref, off, v string) {
	h := s.heap(name, sort)
	s.heaps[name] = fmt.Sprintf("(store %s %s (store (select %s %s) %s %s))", h, ref, h, ref, off, v)
}

func (s *state) havocHeap(name string) {
	srt, ok := s.hsort[name]
	if !ok {
		return
	}
	s.u.fresh++
	var full string
	if name == "M" {
		full = "(Array (_ BitVec 64) (_ BitVec 8))"
	} else {
		full = s.heapSortOf(srt)
	}
	s.heaps[name] = s.u.declare(fmt.Sprintf("%s@%d", name, s.u.fresh), full)
}

func (s *state) heapNames() []string {
	var out []string
	for k := range s.hsort {
		out = append(out, k)
	}
	sort.Strings(out)
	return out
}

// ---- raw memory --------------------------------------------------------------

func (s *state) rawLoadBits(addr string, nbytes int64) string {
	if s.u.m.intMode {
		panic(engineErr("raw memory access in int mode"))
	}
	if s.u.eng.plug != nil {
		return s.u.eng.plug.load(s, addr, nbytes)
	}
	m := s.heap("M", "(_ BitVec 8)")
	parts := []string{}
	for i := nbytes - 1; i >= 0; i-- {
		parts = append(parts, fmt.Sprintf("(select %s %s)", m, bvadd(addr, s.u.m.offConst(i))))
	}
	if nbytes == 1 {
		return parts[0]
	}
	return "(concat " + strings.Join(parts, " ") + ")"
}

func (s *state) rawStoreBits(addr string, nbytes int64, v string) {
	if s.u.m.intMode {
		panic(engineErr("raw memory access in int mode"))
	}
	if s.u.eng.plug != nil {
		s.u.eng.plug.store(s, addr, nbytes, v)
		return
	}
	m := s.heap("M", "(_ BitVec 8)")
	// name large operands and the resulting memory: terms are strings without sharing, and
	// a read-modify-write sequence would otherwise grow them exponentially
	if len(v) > 160 {
		n := s.u.newSym("sv", fmt.Sprintf("(_ BitVec %d)", nbytes*8))
		s.pc = append(s.pc, eq(n, v))
		v = n
	}
	if len(addr) > 160 {
		n := s.u.newSym("sa", "(_ BitVec 64)")
		s.pc = append(s.pc, eq(n, addr))
		addr = n
	}
	defer func() {
		if cur := s.heaps["M"]; len(cur) > 1500 {
			s.u.fresh++
			n := s.u.declare(fmt.Sprintf("M@%d", s.u.fresh), "(Array (_ BitVec 64) (_ BitVec 8))")
			s.pc = append(s.pc, eq(n, cur))
			s.heaps["M"] = n
		}
	}()
	for i := int64(0); i < nbytes; i++ {
		b := v
		if nbytes > 1 {
			b = fmt.Sprintf("((_ extract %d %d) %s)", i*8+7, i*8, v)
		}
		m = fmt.Sprintf("(store %s %s %s)", m, bvadd(addr, s.u.m.offConst(i)), b)
	}
	s.heaps["M"] = m
}

func isRawRef(ref string) bool { return ref == "(- 1)" }

const rawRef = "(- 1)"

// ---- typed loads / stores -------------------------------------------------------

func structFields(st *types.Struct) ([]*types.Var, []int64) {
	fs := make([]*types.Var, st.NumFields())
	for i := range fs {
		fs[i] = st.Field(i)
	}
	return fs, sizes.Offsetsof(fs)
}

func isInlineField(t types.Type) bool {
	switch t.Underlying().(type) {
	case *types.Struct, *types.Array:
		return true
	}
	return false
}

// loadAt reads a value of type t stored at (ref, off).  fld != nil when the
// pointer is the address of a scalar field.
func (s *state) loadAt(t types.Type, ref, off string, fld *fieldRef) Val {
	m := s.u.m
	if isRawRef(ref) {
		var out []string
		for _, l := range m.leaves(t) {
			out = append(out, s.rawLeaf(l, bvadd(off, m.offConst(l.off))))
		}
		return Val{T: t, S: out}
	}
	switch u := t.Underlying().(type) {
	case *types.Struct:
		fs, offs := structFields(u)
		var out []string
		for i, f := range fs {
			if isInlineField(f.Type()) {
				out = append(out, s.loadAt(f.Type(), ref, m.offAdd(off, m.offConst(offs[i])), nil).S...)
			} else {
				out = append(out, s.loadAt(f.Type(), ref, "", &fieldRef{heap: "H_" + tname(t) + "_" + f.Name(), ref: ref, off: off}).S...)
			}
		}
		return Val{T: t, S: out}
	case *types.Array:
		if u.Len() > 64 {
			panic(engineErr("load of large array value " + t.String()))
		}
		esz := sizes.Sizeof(u.Elem())
		var out []string
		for i := int64(0); i < u.Len(); i++ {
			out = append(out, s.loadAt(u.Elem(), ref, m.offAdd(off, m.offConst(i*esz)), nil).S...)
		}
		return Val{T: t, S: out}
	}
	name := "E_" + tname(t)
	if fld != nil {
		name, ref, off = fld.heap, fld.ref, fld.off
	}
	ls := m.leaves(t)
	var out []string
	for _, l := range ls {
		x := s.rd(name+l.path, l.sort, ref, off)
		out = append(out, x)
	}
	v := Val{T: t, S: out}
	for _, l := range ls {
		if strings.HasSuffix(l.path, ".ref") {
			if s.u.rawStored[name] {
				panic(engineErr("load of " + name + " after a raw pointer was stored into it in this unit " + shortStack()))
			}
			if s.u.codeLoad {
				if s.u.typedLoads == nil {
					s.u.typedLoads = map[string]bool{}
				}
				s.u.typedLoads[name] = true
			}
		}
	}
	if s.u.eng.rawFieldOK(name) {
		// a field declared to hold raw (integer-made) pointers: its reference leaf is the RAW marker
		for i, l := range ls {
			if strings.HasSuffix(l.path, ".ref") {
				v.S[i] = rawRef
			}
		}
	}
	s.assumeLoadFacts(v, ls)
	return v
}

// facts about loaded values are only asserted for leaves where they are
// cheap and needed (int-mode ranges, ref >= 0)
func (s *state) assumeLoadFacts(v Val, ls []leaf) {
	for i, l := range ls {
		if f := s.leafFact(l, v.S[i]); f != "" {
			s.pc = append(s.pc, f)
		}
	}
	s.sliceFacts(v.T, v.S, ls)
}

func (s *state) rawLeaf(l leaf, addr string) string {
	switch {
	case l.sort == "Bool":
		return not(eq(s.rawLoadBits(addr, 1), "(_ bv0 8)"))
	case l.sort == "Int":
		// a pointer stored in raw memory: the loaded pointer is raw too
		if strings.HasSuffix(l.path, ".ref") {
			return rawRef
		}
		panic(engineErr("raw load of non-integer leaf " + l.path))
	}
	var w int64
	fmt.Sscanf(l.sort, "(_ BitVec %d)", &w)
	return s.rawLoadBits(addr, w/8)
}

func (s *state) storeAt(t types.Type, ref, off string, fld *fieldRef, v Val) {
	m := s.u.m
	if isRawRef(ref) {
		for i, l := range m.leaves(t) {
			if l.sort == "Int" {
				if strings.HasSuffix(l.path, ".ref") {
					continue
				}
				panic(engineErr("raw store of non-integer leaf"))
			}
			a := bvadd(off, m.offConst(l.off))
			if l.sort == "Bool" {
				s.rawStoreBits(a, 1, ite(v.S[i], "(_ bv1 8)", "(_ bv0 8)"))
				continue
			}
			var w int64
			fmt.Sscanf(l.sort, "(_ BitVec %d)", &w)
			s.rawStoreBits(a, w/8, v.S[i])
		}
		return
	}
	switch u := t.Underlying().(type) {
	case *types.Struct:
		fs, offs := structFields(u)
		k := 0
		for i, f := range fs {
			n := len(m.leaves(f.Type()))
			sub := Val{T: f.Type(), S: v.S[k : k+n]}
			if isInlineField(f.Type()) {
				s.storeAt(f.Type(), ref, m.offAdd(off, m.offConst(offs[i])), nil, sub)
			} else {
				s.storeAt(f.Type(), ref, "", &fieldRef{heap: "H_" + tname(t) + "_" + f.Name(), ref: ref, off: off}, sub)
			}
			k += n
		}
		return
	case *types.Array:
		esz := sizes.Sizeof(u.Elem())
		n := len(m.leaves(u.Elem()))
		for i := int64(0); i < u.Len(); i++ {
			s.storeAt(u.Elem(), ref, m.offAdd(off, m.offConst(i*esz)), nil, Val{T: u.Elem(), S: v.S[int(i)*n : int(i+1)*n]})
		}
		return
	}
	name := "E_" + tname(t)
	if fld != nil {
		name, ref, off = fld.heap, fld.ref, fld.off
	}
	for i, l := range m.leaves(t) {
		if strings.HasSuffix(l.path, ".ref") && isRawRef(v.S[i]) && !s.u.eng.rawFieldOK(name) {
			if strings.HasPrefix(name, "B_") {
				s.u.rawBoxed = true // boxed into an interface: must not be unboxed in this unit
			} else if s.u.ct != nil && s.u.ct.rawStores {
				// `rawstores`: the unit may store integer-made pointers into typed fields as
				// long as it never loads that field again (the load-time fact would be wrong)
				if s.u.typedLoads[name] {
					panic(engineErr("raw pointer stored into typed heap " + name + " that this unit also loads"))
				}
				if s.u.rawStored == nil {
					s.u.rawStored = map[string]bool{}
				}
				s.u.rawStored[name] = true
			} else {
				panic(engineErr("raw pointer stored into typed heap " + name + " (declare `rawfield`)"))
			}
		}
		s.wr(name+l.path, l.sort, ref, off, v.S[i])
	}
}

// boxed values: scalars live in the per-type box heap B_T, structs and arrays
// are stored like an object of that type at (box, 0)
func (s *state) loadBox(t types.Type, box string) Val {
	z := s.u.m.offConst(0)
	if isInlineField(t) {
		return s.loadAt(t, box, z, nil)
	}
	return s.loadAt(t, "", "", &fieldRef{heap: "B_" + tname(t), ref: box, off: z})
}

func (s *state) storeBox(t types.Type, box string, v Val) {
	z := s.u.m.offConst(0)
	if isInlineField(t) {
		s.storeAt(t, box, z, nil, v)
		return
	}
	s.storeAt(t, "", "", &fieldRef{heap: "B_" + tname(t), ref: box, off: z}, v)
}
