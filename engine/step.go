package main

import (
	"sort"
	"fmt"
	"go/ast"
	"go/token"
	"go/types"
	"math/big"
	"strings"

	"golang.org/x/tools/go/ssa"
)

func (s *state) oblFor(in ssa.Instruction) oblFn {
	return func(kind, goal string) { s.safety(kind, goal, in) }
}

func (s *state) idx64(v ssa.Value) string {
	x := s.get(v)
	if s.u.m.intMode {
		return x.S[0]
	}
	return s.u.resize(x.S[0], v.Type(), types.Typ[types.Int64], false)
}

func (s *state) inRange(i, n string) string {
	if s.u.m.intMode {
		return fmt.Sprintf("(and (<= 0 %s) (< %s %s))", i, i, n)
	}
	return fmt.Sprintf("(bvult %s %s)", i, n)
}

func (s *state) le(a, b string) string {
	if s.u.m.intMode {
		return fmt.Sprintf("(<= %s %s)", a, b)
	}
	if x, _, ok := bvLit(a); ok && x.Sign() == 0 {
		return fmt.Sprintf("(bvsge %s %s)", b, a)
	}
	return fmt.Sprintf("(bvule %s %s)", a, b) // lengths are non-negative; unsigned compare also rejects negatives
}

func (s *state) sub(a, b string) string {
	if s.u.m.intMode {
		if y, ok := intLit(b); ok && y.Sign() == 0 {
			return a
		}
		return fmt.Sprintf("(- %s %s)", a, b)
	}
	if y, _, ok := bvLit(b); ok && y.Sign() == 0 {
		return a
	}
	return fmt.Sprintf("(bvsub %s %s)", a, b)
}

// sliceHeaderSource detects *(*[]T)(unsafe.Pointer(&reflect.SliceHeader{...}))
func sliceHeaderSource(v ssa.Value) ssa.Value {
	for depth := 0; depth < 6; depth++ {
		switch d := v.(type) {
		case *ssa.Convert:
			v = d.X
		case *ssa.ChangeType:
			v = d.X
		default:
			if pt, ok := v.Type().Underlying().(*types.Pointer); ok {
				if nt, ok := pt.Elem().(*types.Named); ok && nt.Obj().Name() == "SliceHeader" && nt.Obj().Pkg() != nil && nt.Obj().Pkg().Path() == "reflect" {
					return v
				}
			}
			return nil
		}
	}
	return nil
}

func (s *state) step(b *ssa.BasicBlock, ii int, in ssa.Instruction) bool {
	u := s.u
	m := u.m
	switch d := in.(type) {
	case *ssa.Phi:
	case *ssa.DebugRef:
		if id, ok := d.Expr.(*ast.Ident); ok && u.eng.isLocalVar(b.Parent(), id) {
			s.names[id.Name] = nameBinding{v: d.X, isAddr: d.IsAddr}
		}
	case *ssa.Alloc:
		u.nextRef++
		ref := fmt.Sprintf("(- %d)", 9+u.nextRef)
		et := d.Type().Underlying().(*types.Pointer).Elem()
		s.vals[d] = Val{T: d.Type(), S: []string{ref, m.offConst(0)}}
		s.zeroInit(et, ref)
	case *ssa.FieldAddr:
		p := s.get(d.X)
		pt := d.X.Type().Underlying().(*types.Pointer).Elem()
		st := pt.Underlying().(*types.Struct)
		_, offs := structFields(st)
		f := st.Field(d.Field)
		if !isRawRef(p.S[0]) {
			s.safety("nil-deref", not(eq(p.S[0], "0")), in)
		}
		v := Val{T: d.Type(), S: []string{p.S[0], m.offAdd(p.S[1], m.offConst(offs[d.Field]))}}
		if !isInlineField(f.Type()) && !isRawRef(p.S[0]) {
			v.Fld = &fieldRef{heap: "H_" + tname(pt) + "_" + f.Name(), ref: p.S[0], off: p.S[1]}
		}
		s.vals[d] = v
	case *ssa.IndexAddr:
		x := s.get(d.X)
		idx := s.idx64(d.Index)
		var et types.Type
		var ln string
		switch ut := d.X.Type().Underlying().(type) {
		case *types.Slice:
			et, ln = ut.Elem(), x.S[2]
		case *types.Pointer:
			arr := ut.Elem().Underlying().(*types.Array)
			et, ln = arr.Elem(), m.offConst(arr.Len())
			if !isRawRef(x.S[0]) {
				s.safety("nil-deref", not(eq(x.S[0], "0")), in)
			}
		default:
			panic(engineErr("IndexAddr on " + d.X.Type().String()))
		}
		s.safety("index", s.inRange(idx, ln), in)
		s.vals[d] = Val{T: d.Type(), S: []string{x.S[0], m.offAdd(x.S[1], m.offMulConst(idx, sizes.Sizeof(et)))}}
	case *ssa.Index: // array value or string
		x := s.get(d.X)
		if _, isStr := d.X.Type().Underlying().(*types.Basic); isStr {
			idx := s.idx64(d.Index)
			s.safety("index", s.inRange(idx, x.S[2]), in)
			s.vals[d] = s.loadAt(types.Typ[types.Uint8], x.S[0], m.offAdd(x.S[1], idx), nil)
			break
		}
		arr := d.X.Type().Underlying().(*types.Array)
		n := len(m.leaves(arr.Elem()))
		iv := s.get(d.Index)
		k, ok := litInt(iv.S[0])
		if !ok {
			idx := s.idx64(d.Index)
			s.safety("index", s.inRange(idx, m.offConst(arr.Len())), in)
			if n != 1 {
				panic(engineErr("symbolic index into array value with composite elements"))
			}
			r := x.S[arr.Len()-1]
			for j := arr.Len() - 2; j >= 0; j-- {
				r = ite(eq(idx, m.offConst(j)), x.S[j], r)
			}
			s.vals[d] = Val{T: d.Type(), S: []string{r}}
			break
		}
		s.vals[d] = Val{T: d.Type(), S: x.S[int(k)*n : int(k+1)*n]}
	case *ssa.Lookup:
		x := s.get(d.X)
		if _, isMap := d.X.Type().Underlying().(*types.Map); isMap {
			s.vals[d] = s.mapLookup(d, x)
			break
		}
		idx := s.idx64(d.Index)
		s.safety("index", s.inRange(idx, x.S[2]), in)
		s.vals[d] = s.loadAt(types.Typ[types.Uint8], x.S[0], m.offAdd(x.S[1], idx), nil)
	case *ssa.UnOp:
		switch d.Op {
		case token.MUL:
			u.codeLoad = true
			s.vals[d] = s.load(d.X, d.Type(), in)
			u.codeLoad = false
		case token.ARROW:
			panic(engineErr("channel receive"))
		default:
			s.vals[d] = u.unary(d.Op, s.get(d.X), s.oblFor(in))
		}
	case *ssa.BinOp:
		s.vals[d] = s.binop(d, in)
	case *ssa.Store:
		s.store(d.Addr, d.Val.Type(), s.get(d.Val), in)
	case *ssa.Convert:
		s.vals[d] = s.convert(d)
	case *ssa.ChangeType:
		x := s.get(d.X)
		s.vals[d] = Val{T: d.Type(), S: x.S, Fld: x.Fld}
	case *ssa.ChangeInterface:
		x := s.get(d.X)
		s.vals[d] = Val{T: d.Type(), S: x.S}
	case *ssa.MakeInterface:
		x := s.get(d.X)
		u.nextRef++
		box := fmt.Sprintf("(- %d)", 9+u.nextRef)
		t := d.X.Type()
		if x.Fld != nil {
			panic(engineErr("address of scalar field escapes into interface"))
		}
		s.storeBox(t, box, x)
		s.vals[d] = Val{T: d.Type(), S: []string{fmt.Sprint(u.eng.typeID(t)), box}}
	case *ssa.TypeAssert:
		x := s.get(d.X)
		if _, isIface := d.AssertedType.Underlying().(*types.Interface); isIface {
			// interface-to-interface assertion: succeeds iff the value is non-nil and its
			// dynamic type implements the interface - an uninterpreted predicate over type ids,
			// fixed by go/types for every concrete type the engine has numbered
			ok := and(not(eq(x.S[0], "0")), s.implTerm(x.S[0], d.AssertedType))
			if d.CommaOk {
				s.vals[d] = Val{T: d.Type(), S: append(append([]string{}, x.S...), ok)}
			} else {
				s.safety("type-assert", ok, in)
				s.vals[d] = Val{T: d.Type(), S: x.S}
			}
			break
		}
		ok := eq(x.S[0], fmt.Sprint(u.eng.typeID(d.AssertedType)))
		if u.rawBoxed {
			panic(engineErr("type assertion in a unit that boxed a raw pointer into an interface"))
		}
		pv := s.loadBox(d.AssertedType, x.S[1])
		if d.CommaOk {
			zero := m.zeroVal(d.AssertedType)
			var ss []string
			for i := range pv.S {
				ss = append(ss, ite(ok, pv.S[i], zero.S[i]))
			}
			s.vals[d] = Val{T: d.Type(), S: append(ss, ok)}
		} else {
			s.safety("type-assert", ok, in)
			s.vals[d] = pv
		}
	case *ssa.Extract:
		t := d.Tuple.Type().(*types.Tuple)
		tv := s.get(d.Tuple)
		k := 0
		for i := 0; i < d.Index; i++ {
			k += len(m.leaves(t.At(i).Type()))
		}
		s.vals[d] = Val{T: d.Type(), S: tv.S[k : k+len(m.leaves(t.At(d.Index).Type()))]}
	case *ssa.Field:
		st := d.X.Type().Underlying().(*types.Struct)
		tv := s.get(d.X)
		k := 0
		for i := 0; i < d.Field; i++ {
			k += len(m.leaves(st.Field(i).Type()))
		}
		s.vals[d] = Val{T: d.Type(), S: tv.S[k : k+len(m.leaves(st.Field(d.Field).Type()))]}
	case *ssa.Slice:
		s.vals[d] = s.sliceOp(d, in)
	case *ssa.MakeSlice:
		ln := s.idx64(d.Len)
		cp := s.idx64(d.Cap)
		zero := m.offConst(0)
		s.safety("make-len", and(s.le(zero, ln), s.le(ln, cp)), in)
		u.nextRef++
		ref := fmt.Sprintf("(- %d)", 9+u.nextRef)
		et := d.Type().Underlying().(*types.Slice).Elem()
		s.zeroInit(et, ref)
		s.vals[d] = Val{T: d.Type(), S: []string{ref, zero, ln, cp}}
	case *ssa.MakeClosure:
		fn := d.Fn.(*ssa.Function)
		id := fmt.Sprint(900000 + len(u.closures))
		cv := &closureVal{mc: d, fn: fn}
		for _, bnd := range d.Bindings {
			cv.binds = append(cv.binds, s.get(bnd))
		}
		u.closures[id] = cv
		s.vals[d] = Val{T: d.Type(), S: []string{id}}
	case *ssa.MakeMap:
		u.nextRef++
		s.vals[d] = Val{T: d.Type(), S: []string{fmt.Sprintf("(- %d)", 9+u.nextRef)}}
	case *ssa.MapUpdate:
		s.mapUpdate(d)
	case *ssa.If:
		c := s.get(d.Cond).S[0]
		switch c {
		case "true":
			s.exec(b.Succs[0], b, 0)
			return false
		case "false":
			s.exec(b.Succs[1], b, 0)
			return false
		}
		if u.npaths > maxPaths {
			panic(engineErr("too many paths in " + u.name()))
		}
		// a branch whose condition is the literal negation of a fact already on the path is
		// infeasible: not explored (cheap syntactic check, no solver call)
		nc := not(c)
		takeThen, takeElse := true, true
		for _, p := range s.pc {
			if p == nc {
				takeThen = false
			}
			if p == c {
				takeElse = false
			}
		}
		if takeThen && takeElse {
			t := s.clone()
			t.pc = append(t.pc, c)
			t.loopBodyHints(b, b.Succs[0])
			t.exec(b.Succs[0], b, 0)
			s.pc = append(s.pc, nc)
			s.loopBodyHints(b, b.Succs[1])
			s.exec(b.Succs[1], b, 0)
		} else if takeThen {
			s.loopBodyHints(b, b.Succs[0])
			s.exec(b.Succs[0], b, 0)
		} else if takeElse {
			s.loopBodyHints(b, b.Succs[1])
			s.exec(b.Succs[1], b, 0)
		} else {
			s.endPath()
		}
		return false
	case *ssa.Jump:
		s.exec(b.Succs[0], b, 0)
		return false
	case *ssa.Return:
		var rs []Val
		for _, r := range d.Results {
			rs = append(rs, s.get(r))
		}
		s.doReturn(rs, d)
		return false
	case *ssa.Panic:
		if u.ct != nil && u.ct.neverReturns && !u.ct.trusted {
			// a function claimed never to return: ending in a panic is the specified behaviour
			u.covers = append(u.covers, &oblig{name: u.name() + "#cover.panic", kind: "cover", pc: append([]string(nil), s.pc...), goal: "false", clause: "panic reachable", path: u.npaths})
			s.endPath()
			return false
		}
		if len(s.frames) == 0 && u.ct.panicsIf != nil {
			// reaching a panic is the specified behaviour on this path
			s.endPath()
			return false
		}
		if !(u.ct != nil && u.ct.mayPanic) {
			s.oblige("panic", "", "explicit panic is unreachable", "false", d.Pos(), s.site(in), false)
		}
		s.endPath()
		return false
	case *ssa.RunDefers:
		// deferred calls run last-in-first-out, each by its contract
		for i := len(s.defers) - 1; i >= 0; i-- {
			df := s.defers[i]
			callee, fc, _ := s.resolveCallee(df, true)
			if fc == nil {
				panic(engineErr(fmt.Sprintf("%s: deferred call needs a contract", u.eng.posStr(df.Pos()))))
			}
			s.applyContract(fc, callee, s.deferArgs[df], df, nil)
		}
		s.defers = nil
	case *ssa.Defer:
		var args []Val
		for _, a := range d.Call.Args {
			args = append(args, s.get(a))
		}
		if s.deferArgs == nil {
			s.deferArgs = map[*ssa.Defer][]Val{}
		}
		s.deferArgs[d] = args
		s.defers = append(s.defers, d)
	case *ssa.Call:
		return s.doCall(b, ii, d)
	case *ssa.Go, *ssa.Send, *ssa.Select:
		panic(engineErr("concurrency primitive"))
	case *ssa.Range:
		// iteration over a map or string: the iterator carries no information
		s.vals[d] = Val{T: d.Type(), S: []string{"0"}}
	case *ssa.Next:
		// over-approximation: whether there is a next element, and which, is arbitrary (sound for
		// every property that does not depend on the map's / string's content or order)
		u.notes["map/string iteration in "+funcKey(b.Parent())+" is modelled as an arbitrary sequence of elements"] = true
		s.vals[d] = s.symVal("next", d.Type())
	default:
		panic(engineErr(fmt.Sprintf("unsupported instruction %T: %s", in, in)))
	}
	return true
}

func litInt(t string) (int64, bool) {
	if v, ok := intLit(t); ok {
		return v.Int64(), true
	}
	if v, _, ok := bvLit(t); ok {
		return v.Int64(), true
	}
	return 0, false
}

func (s *state) zeroInit(t types.Type, ref string) {
	m := s.u.m
	var bases []struct{ name, sort string }
	var walk func(t types.Type)
	walk = func(t types.Type) {
		switch ut := t.Underlying().(type) {
		case *types.Struct:
			for i := 0; i < ut.NumFields(); i++ {
				f := ut.Field(i)
				if isInlineField(f.Type()) {
					walk(f.Type())
				} else {
					for _, l := range m.leaves(f.Type()) {
						bases = append(bases, struct{ name, sort string }{"H_" + tname(t) + "_" + f.Name() + l.path, l.sort})
					}
				}
			}
		case *types.Array:
			walk(ut.Elem())
		default:
			for _, l := range m.leaves(t) {
				bases = append(bases, struct{ name, sort string }{"E_" + tname(t) + l.path, l.sort})
			}
		}
	}
	walk(t)
	for _, bs := range bases {
		h := s.heap(bs.name, bs.sort)
		s.heaps[bs.name] = fmt.Sprintf("(store %s %s ((as const (Array %s %s)) %s))", h, ref, m.offSort(), bs.sort, m.zeroOf(bs.sort))
	}
}

func (s *state) load(pv ssa.Value, t types.Type, in ssa.Instruction) Val {
	u := s.u
	// immutable package-level variables with a known initialiser
	if g, ok := pv.(*ssa.Global); ok {
		if v, ok := s.globalInit(g); ok {
			return v
		}
	}
	if g, ok := pv.(*ssa.Global); ok {
		if arr, isArr := t.Underlying().(*types.Array); isArr {
			u.eng.immutableInit(g)
			if tab, ok := u.eng.arrInit[g]; ok && len(u.m.leaves(arr.Elem())) == 1 {
				var ss []string
				for k := int64(0); k < arr.Len(); k++ {
					if c, ok := tab[k]; ok {
						ss = append(ss, s.constVal(c).S[0])
					} else {
						ss = append(ss, u.m.zeroVal(arr.Elem()).S[0])
					}
				}
				return Val{T: t, S: ss}
			}
		}
	}
	// immutable package-level arrays with constant initialisers
	if ia, ok := pv.(*ssa.IndexAddr); ok {
		if g, ok := ia.X.(*ssa.Global); ok {
			u.eng.immutableInit(g) // make sure the tables are computed
			if tab, ok := u.eng.arrInit[g]; ok {
				arr := g.Type().Underlying().(*types.Pointer).Elem().Underlying().(*types.Array)
				s.get(pv) // index obligation was emitted at the IndexAddr
				idx := s.idx64(ia.Index)
				elem := func(k int64) string {
					if c, ok := tab[k]; ok {
						return s.constVal(c).S[0]
					}
					return u.m.zeroVal(arr.Elem()).S[0]
				}
				if k, ok := litInt(idx); ok {
					return Val{T: t, S: []string{elem(k)}}
				}
				if arr.Len() <= 32 && len(u.m.leaves(arr.Elem())) == 1 {
					r := elem(arr.Len() - 1)
					for k := arr.Len() - 2; k >= 0; k-- {
						r = ite(eq(idx, u.m.offConst(k)), elem(k), r)
					}
					return Val{T: t, S: []string{r}}
				}
			}
		}
	}
	// the reflect.SliceHeader overlay idiom
	if _, isSlice := t.Underlying().(*types.Slice); isSlice {
		if src := sliceHeaderSource(pv); src != nil && src != pv {
			p := s.get(src)
			hp := src.Type().Underlying().(*types.Pointer).Elem()
			hv := s.loadAt(hp, p.S[0], p.S[1], nil) // Data, Len, Cap
			data := hv.S[0]
			if u.m.intMode {
				panic(engineErr("SliceHeader overlay in int mode"))
			}
			return Val{T: t, S: []string{rawRef, data, hv.S[1], hv.S[2]}}
		}
	}
	p := s.get(pv)
	if !isRawRef(p.S[0]) {
		s.safety("nil-deref", not(eq(p.S[0], "0")), in)
	} else {
		s.checkReads(p.S[1], sizes.Sizeof(t), in)
	}
	if len(u.ct.guards) > 0 && !isRawRef(p.S[0]) {
		if p.Fld != nil {
			s.checkGuard([]string{p.Fld.heap}, in)
		} else {
			s.checkGuard(heapBasesOfType(t), in)
		}
	}
	v := s.loadAt(t, p.S[0], p.S[1], p.Fld)
	if p.Fld != nil && u.eng.rawFieldOK(p.Fld.heap) {
		v.S[0] = rawRef
	}
	return v
}

// stringHeaderField: pv is &h.Data / &h.Len where h = (*reflect.StringHeader)(unsafe.Pointer(&str))
// for a string variable str - the idiom that builds a string over raw bytes in place
func stringHeaderField(pv ssa.Value) (field string, ok bool) {
	fa, isFA := pv.(*ssa.FieldAddr)
	if !isFA {
		return "", false
	}
	pt, isPtr := fa.X.Type().Underlying().(*types.Pointer)
	if !isPtr || !isNamed(pt.Elem(), "reflect", "StringHeader") {
		return "", false
	}
	x := fa.X
	for i := 0; i < 4; i++ {
		c, isConv := x.(*ssa.Convert)
		if !isConv {
			break
		}
		x = c.X
	}
	xp, isPtr := x.Type().Underlying().(*types.Pointer)
	if !isPtr {
		return "", false
	}
	if b, isBasic := xp.Elem().Underlying().(*types.Basic); !isBasic || b.Kind() != types.String {
		return "", false
	}
	return pt.Elem().Underlying().(*types.Struct).Field(fa.Field).Name(), true
}

func (s *state) store(pv ssa.Value, t types.Type, v Val, in ssa.Instruction) {
	p := s.get(pv)
	if fld, ok := stringHeaderField(pv); ok && p.Fld != nil {
		// the header overlays a string variable: Data/Len are the string's address and length
		ref, off := p.Fld.ref, p.Fld.off
		ls := s.u.m.leaves(types.Typ[types.String])
		base := "E_" + tname(types.Typ[types.String])
		s.checkFrame([]string{base}, ref, off, in)
		val := s.u.mat(v, t)
		switch fld {
		case "Data":
			s.wr(base+ls[0].path, ls[0].sort, ref, off, rawRef)
			s.wr(base+ls[1].path, ls[1].sort, ref, off, val.S[0])
		case "Len":
			s.wr(base+ls[2].path, ls[2].sort, ref, off, val.S[0])
		}
		s.u.notes["a string is built in place over raw bytes through reflect.StringHeader (its bytes are read from raw memory)"] = true
		return
	}
	if v.Fld != nil {
		panic(engineErr("address of a scalar field is stored (escapes): " + s.u.eng.posStr(in.Pos())))
	}
	if !isRawRef(p.S[0]) {
		s.safety("nil-deref", not(eq(p.S[0], "0")), in)
	}
	var bases []string
	ref, off := p.S[0], p.S[1]
	switch {
	case isRawRef(p.S[0]):
		bases = []string{"M"}
	case p.Fld != nil:
		bases = []string{p.Fld.heap}
		ref, off = p.Fld.ref, p.Fld.off
	default:
		bases = heapBasesOfType(t)
	}
	s.checkFrame(bases, ref, off, in)
	s.checkGuard(bases, in)
	s.storeAt(t, p.S[0], p.S[1], p.Fld, v)
}

func (s *state) binop(d *ssa.BinOp, in ssa.Instruction) Val {
	a, b := s.get(d.X), s.get(d.Y)
	t := d.X.Type()
	if isInteger(t) && (isInteger(d.Y.Type())) {
		r := s.u.arith(d.Op, a, b, s.oblFor(in))
		r.T = d.Type()
		return r
	}
	// non-integers: == and != only
	var cs []string
	switch t.Underlying().(type) {
	case *types.Interface:
		// compare dynamic type and payload reference; boxed values are
		// compared by the box (sound for pointer payloads and nil)
		if isNilConst(d.Y) {
			cs = []string{eq(a.S[0], "0")}
		} else if isNilConst(d.X) {
			cs = []string{eq(b.S[0], "0")}
		} else {
			cs = []string{s.ifaceEq(a, b, d.X, d.Y)}
		}
	case *types.Slice, *types.Map, *types.Signature:
		if isNilConst(d.Y) {
			cs = []string{eq(a.S[0], "0")}
		} else {
			cs = []string{eq(b.S[0], "0")}
		}
	case *types.Basic:
		if isBool(t) {
			cs = []string{eq(a.S[0], b.S[0])}
		} else if t.Underlying().(*types.Basic).Kind() == types.UnsafePointer && (isNilConst(d.X) || isNilConst(d.Y)) {
			if isNilConst(d.Y) {
				cs = []string{nilTest(a)}
			} else {
				cs = []string{nilTest(b)}
			}
		} else if t.Underlying().(*types.Basic).Info()&types.IsString != 0 {
			cs = []string{s.stringEq(a, b)}
		} else {
			for i := range a.S {
				cs = append(cs, eq(a.S[i], b.S[i]))
			}
		}
	case *types.Pointer:
		switch {
		case isNilConst(d.Y):
			cs = []string{nilTest(a)}
		case isNilConst(d.X):
			cs = []string{nilTest(b)}
		default:
			cs = []string{eq(a.S[0], b.S[0]), eq(a.S[1], b.S[1])}
		}
	default:
		for i := range a.S {
			cs = append(cs, eq(a.S[i], b.S[i]))
		}
	}
	r := and(cs...)
	if d.Op == token.NEQ {
		r = not(r)
	} else if d.Op != token.EQL {
		panic(engineErr("operator " + d.Op.String() + " on " + t.String()))
	}
	return Val{T: d.Type(), S: []string{r}}
}

func isNilConst(v ssa.Value) bool {
	c, ok := v.(*ssa.Const)
	return ok && c.Value == nil
}

func (s *state) ifaceEq(a, b Val, x, y ssa.Value) string {
	// if one side was made from a pointer-typed value, compare payloads
	mk := func(v ssa.Value) *ssa.MakeInterface {
		mi, _ := v.(*ssa.MakeInterface)
		return mi
	}
	if mi := mk(y); mi != nil {
		if _, ok := mi.X.Type().Underlying().(*types.Pointer); ok {
			pv := s.get(mi.X)
			av := s.loadBox(mi.X.Type(), a.S[1])
			return and(eq(a.S[0], fmt.Sprint(s.u.eng.typeID(mi.X.Type()))), eq(av.S[0], pv.S[0]), eq(av.S[1], pv.S[1]))
		}
	}
	if mi := mk(x); mi != nil {
		return s.ifaceEq(b, a, y, x)
	}
	return and(eq(a.S[0], b.S[0]), eq(a.S[1], b.S[1]))
}

func (s *state) stringEq(a, b Val) string {
	// equal lengths and (for constant operands) equal bytes
	m := s.u.m
	if n, ok := litInt(b.S[2]); ok && n <= 64 {
		cs := []string{eq(a.S[2], b.S[2])}
		for i := int64(0); i < n; i++ {
			cs = append(cs, eq(s.rd("E_uint8", m.intSort(8), a.S[0], m.offAdd(a.S[1], m.offConst(i))), s.rd("E_uint8", m.intSort(8), b.S[0], m.offAdd(b.S[1], m.offConst(i)))))
		}
		return and(cs...)
	}
	if n, ok := litInt(a.S[2]); ok && n <= 64 {
		return s.stringEq(b, a)
	}
	f := s.u.declareFun("str_eq", []string{"Int", m.offSort(), m.offSort(), "Int", m.offSort(), m.offSort()}, "Bool")
	s.u.notes["string comparison of two non-constant strings left uninterpreted"] = true
	return fmt.Sprintf("(%s %s %s %s %s %s %s)", f, a.S[0], a.S[1], a.S[2], b.S[0], b.S[1], b.S[2])
}

func (s *state) convert(d *ssa.Convert) Val {
	u := s.u
	x := s.get(d.X)
	ft, tt := d.X.Type(), d.Type()
	fb, fok := ft.Underlying().(*types.Basic)
	tb, tok := tt.Underlying().(*types.Basic)
	switch {
	case fok && tok && fb.Info()&types.IsInteger != 0 && tb.Info()&types.IsInteger != 0:
		return Val{T: tt, S: []string{u.resize(x.S[0], ft, tt, false)}}
	case fok && fb.Kind() == types.Uintptr && tok && tb.Kind() == types.UnsafePointer:
		return Val{T: tt, S: []string{rawRef, x.S[0]}}
	case tok && tb.Kind() == types.Uintptr: // pointer -> uintptr
		if !isRawRef(x.S[0]) {
			u.notes["typed pointer converted to uintptr: numeric address = offset component (object base addresses not modelled)"] = true
		}
		return Val{T: tt, S: []string{x.S[1]}}
	case fok && fb.Info()&types.IsString != 0: // string -> []byte
		if _, ok := tt.Underlying().(*types.Slice); ok {
			u.notes["string->[]byte conversion aliases the string bytes (copy not modelled; bytes are never written)"] = true
			return Val{T: tt, S: []string{x.S[0], x.S[1], x.S[2], x.S[2]}}
		}
	case tok && tb.Info()&types.IsString != 0:
		if _, ok := ft.Underlying().(*types.Slice); ok { // []byte -> string
			u.notes["[]byte->string conversion aliases the bytes"] = true
			return Val{T: tt, S: []string{x.S[0], x.S[1], x.S[2]}}
		}
	}
	if len(u.m.leaves(ft)) == len(u.m.leaves(tt)) {
		// unsafe.Pointer -> *T: reject type punning of typed objects (the
		// type-partitioned heap cannot model two views of one object)
		if tp, ok := tt.Underlying().(*types.Pointer); ok && fok && fb.Kind() == types.UnsafePointer && !isRawRef(x.S[0]) {
			if src, ok := d.X.(*ssa.Convert); ok {
				if sp, ok := src.X.Type().Underlying().(*types.Pointer); ok && !types.Identical(sp.Elem(), tp.Elem()) {
					isStr := false
					if b, ok := sp.Elem().Underlying().(*types.Basic); ok && b.Kind() == types.String && isNamed(tp.Elem(), "reflect", "StringHeader") {
						isStr = true // (*reflect.StringHeader)(unsafe.Pointer(&str)): stores through it are mapped onto the string (see store)
					}
					if !(isNamed(sp.Elem(), "reflect", "SliceHeader")) && !isStr {
						panic(engineErr(fmt.Sprintf("%s: pointer cast %v -> %v re-types a typed object (not modelled) [ref %.80s]", u.eng.posStr(d.Pos()), sp, tp, x.S[0])))
					}
				}
			}
		}
		return Val{T: tt, S: x.S, Fld: x.Fld}
	}
	panic(engineErr(fmt.Sprintf("unsupported conversion %v -> %v", ft, tt)))
}

func (s *state) sliceOp(d *ssa.Slice, in ssa.Instruction) Val {
	m := s.u.m
	x := s.get(d.X)
	zero := m.offConst(0)
	lo := zero
	if d.Low != nil {
		lo = s.idx64(d.Low)
	}
	var ref, off, ln, cp string
	var esz int64
	isStr := false
	switch ut := d.X.Type().Underlying().(type) {
	case *types.Slice:
		ref, off, ln, cp = x.S[0], x.S[1], x.S[2], x.S[3]
		esz = sizes.Sizeof(ut.Elem())
	case *types.Basic:
		ref, off, ln, cp = x.S[0], x.S[1], x.S[2], x.S[2]
		esz = 1
		isStr = true
	case *types.Pointer:
		arr := ut.Elem().Underlying().(*types.Array)
		ref, off = x.S[0], x.S[1]
		ln = m.offConst(arr.Len())
		cp = ln
		esz = sizes.Sizeof(arr.Elem())
		if !isRawRef(ref) {
			s.safety("nil-deref", not(eq(ref, "0")), in)
		}
	}
	hi := ln
	if d.High != nil {
		hi = s.idx64(d.High)
	}
	bound := cp
	if isStr {
		bound = ln
	}
	mx := bound
	if d.Max != nil {
		mx = s.idx64(d.Max)
		s.safety("slice-bounds", and(s.le(zero, lo), s.le(lo, hi), s.le(hi, mx), s.le(mx, cp)), in)
	} else {
		s.safety("slice-bounds", and(s.le(zero, lo), s.le(lo, hi), s.le(hi, bound)), in)
	}
	noff := m.offAdd(off, m.offMulConst(lo, esz))
	if isStr {
		return Val{T: d.Type(), S: []string{ref, noff, s.sub(hi, lo)}}
	}
	return Val{T: d.Type(), S: []string{ref, noff, s.sub(hi, lo), s.sub(mx, lo)}}
}

// ---- maps (ghost model: uninterpreted lookup over a map heap) ----------------------------------

func (s *state) mapLookup(d *ssa.Lookup, mv Val) Val {
	s.u.notes["Go map modelled as an uninterpreted heap MAP (lookup after update not related)"] = true
	mt := d.X.Type().Underlying().(*types.Map)
	v := s.symVal("maplookup", mt.Elem())
	if d.CommaOk {
		ok := s.u.newSym("mapok", "Bool")
		return Val{T: d.Type(), S: append(v.S, ok)}
	}
	return Val{T: d.Type(), S: v.S}
}

func (s *state) mapUpdate(d *ssa.MapUpdate) {
	s.u.notes["Go map modelled as an uninterpreted heap MAP (updates are not tracked)"] = true
	mv := s.get(d.Map)
	s.safety("nil-map", not(eq(mv.S[0], "0")), d)
}

// ---- immutable globals -----------------------------------------------------------------------

func (s *state) globalInit(g *ssa.Global) (Val, bool) {
	u := s.u
	iv, ok := u.eng.immutableInit(g)
	if !ok {
		return Val{}, false
	}
	et := g.Type().Underlying().(*types.Pointer).Elem()
	switch x := iv.(type) {
	case *ssa.Const:
		v := s.constVal(x)
		v.T = et
		return v, true
	case *ssa.Function:
		return Val{T: et, S: []string{fmt.Sprint(u.eng.funcID(x))}}, true
	case *ssa.Alloc:
		// distinct, non-nil, immutable identity
		return Val{T: et, S: []string{fmt.Sprint(u.eng.allocID(x)), u.m.offConst(0)}}, true
	case *ssa.Convert:
		if c, ok := x.X.(*ssa.Const); ok && isInteger(et) && c.Value != nil {
			bi, _ := new(big.Int).SetString(c.Value.ExactString(), 10)
			if bi != nil {
				return Val{T: et, S: []string{u.m.intConst(bi, width(et))}}, true
			}
		}
	}
	return Val{}, false
}

var _ = strings.Contains

// nilTest: a typed reference is nil iff its ref is 0; a raw (integer-made)
// pointer is nil iff its address is 0.
func nilTest(p Val) string {
	if isRawRef(p.S[0]) {
		if _, ok := intLit(p.S[1]); ok {
			return eq(p.S[1], "0")
		}
		return eq(p.S[1], "(_ bv0 64)")
	}
	return eq(p.S[0], "0")
}

// checkReads: a raw load of n bytes at addr must lie inside one of the
// ranges of the unit's `reads mem(lo, hi)` clause (if it has one)
func (s *state) checkReads(addr string, n int64, in ssa.Instruction) {
	u := s.u
	if u.ct == nil || len(u.ct.readsMem) == 0 || n == 0 {
		return
	}
	e := s.contractEnv(u.ct, u.fn, s.entryArgs(), nil)
	e.st = s.old.scratch()
	e.old = s.old
	var alts []string
	nn := u.m.offConst(n)
	for _, c := range u.ct.readsMem {
		e.what = "reads " + c.src
		lo := u.mat(e.eval(c.exprs[0]), types.Typ[types.Uintptr]).S[0]
		hi := u.mat(e.eval(c.exprs[1]), types.Typ[types.Uintptr]).S[0]
		alts = append(alts, fmt.Sprintf("(and (bvule %s %s) (bvuge (bvsub %s %s) %s) (bvule (bvsub %s %s) (bvsub (bvsub %s %s) %s)))", lo, hi, hi, lo, nn, addr, lo, hi, lo, nn))
	}
	s.oblige("reads", "", "raw load stays inside the declared reads set", or(alts...), in.Pos(), s.site(in), false)
}

// loopBodyHints runs the `loop k inbody use ...` proof steps when control
// goes from a loop header into the loop body
// implTerm: "the dynamic type with id tid implements interface it"
func (s *state) implTerm(tid string, it types.Type) string {
	u := s.u
	name := "impl_" + tname(it)
	f := u.declareFun(name, []string{"Int"}, "Bool")
	iface, _ := it.Underlying().(*types.Interface)
	if u.implFacts == nil {
		u.implFacts = map[string]bool{}
	}
	if iface != nil {
		var ids []int
		for id := range u.eng.typeByID {
			ids = append(ids, id)
		}
		sort.Ints(ids)
		for _, id := range ids {
			key := fmt.Sprintf("%s/%d", name, id)
			if u.implFacts[key] {
				continue
			}
			u.implFacts[key] = true
			t := u.eng.typeByID[id]
			if _, isIface := t.Underlying().(*types.Interface); isIface {
				continue
			}
			fact := fmt.Sprintf("(%s %d)", f, id)
			if !types.Implements(t, iface) {
				fact = not(fact)
			}
			u.implAxioms = append(u.implAxioms, fact)
		}
	}
	// (the facts are global truths: queryStage adds them to every query that mentions the predicate)
	return fmt.Sprintf("(%s %s)", f, tid)
}

func (s *state) loopBodyHints(hdr, succ *ssa.BasicBlock) {
	if !isLoopHeader(hdr) {
		return
	}
	fn := hdr.Parent()
	li := loopFor(fn, hdr)
	if li == nil || !li.blocks[succ] {
		return
	}
	lspec := s.u.loopSpecFor(fn, li.ord)
	if lspec == nil || len(lspec.bodyUses) == 0 {
		return
	}
	e := s.contractEnv(nil, fn, nil, nil)
	e.useNames = true
	e.pkg = fn.Pkg.Pkg
	if lc := s.inLoop[hdr]; lc != nil {
		s.curLoopPre = lc.pre
	}
	pos := hdr.Instrs[0].Pos()
	if li.stmt != nil {
		pos = li.stmt.Pos()
	}
	for _, uc := range lspec.bodyUses {
		for _, x := range uc.exprs {
			e.what = "loop inbody use " + uc.src
			s.useHint(e, x, pos, fmt.Sprintf("%s:loop%d:body", funcKey(fn), li.ord))
		}
	}
	s.curLoopPre = nil
}

func isNamed(t types.Type, pkg, name string) bool {
	nt, ok := t.(*types.Named)
	return ok && nt.Obj().Name() == name && nt.Obj().Pkg() != nil && nt.Obj().Pkg().Path() == pkg
}

// checkGuard: accesses to lock-protected locations happen only while the
// guard condition (the lock is held) is true
func (s *state) checkGuard(bases []string, in ssa.Instruction) {
	u := s.u
	if u.ct == nil || len(u.ct.guards) == 0 {
		return
	}
	e := s.contractEnv(u.ct, u.fn, s.entryArgs(), nil)
	e.st = s.scratch()
	e.old = s.old
	for _, g := range u.ct.guards {
		hit := false
		for _, le := range g.exprs {
			tb, ok := e.typeLevelMod(le.e)
			if !ok {
				panic(engineErr("guard locations must be type-level (T.f or elems(T)): " + le.src))
			}
			for _, t := range tb {
				for _, b := range bases {
					if t == b {
						hit = true
					}
				}
			}
		}
		if hit {
			e.what = "guard " + g.src
			s.oblige("guarded", "", "guarded location accessed only while the guard holds: "+g.src, e.evalBool(g.e), in.Pos(), s.site(in), false)
		}
	}
}
