package main

import (
	"context"
	"runtime/debug"
	"strings"
)

func contextBackground() context.Context { return context.Background() }

// lemmaUnits: lemma proofs tagged with the property (see lemma.go)
func (e *engine) lemmaUnits(id string, errs *[]string) []*unit { return proveLemmas(e, id, errs) }

func tryReplay(eng *engine, id string, j job, replayPath string) bool { return replayOnRealCode(eng, id, j, replayPath) }

func shortStack() string {
	st := string(debug.Stack())
	var out []string
	for _, l := range strings.Split(st, "\n") {
		l = strings.TrimSpace(l)
		if strings.HasPrefix(l, "/verif/engine/") {
			if i := strings.Index(l, " "); i > 0 {
				l = l[:i]
			}
			out = append(out, strings.TrimPrefix(l, "/verif/engine/"))
		}
	}
	if len(out) > 8 {
		out = out[2:8]
	}
	return strings.Join(out, " < ")
}

func shortVal(v string) string {
	if strings.HasPrefix(v, "#x") {
		return "0x" + strings.TrimLeft(v[2:], "0") 
	}
	if len(v) > 40 {
		return v[:40] + "…"
	}
	return v
}
