package main

// Ghost variables and statement-level clauses attached to program points.

import (
	"fmt"
	"go/ast"
	"go/token"
	"go/types"
	"strconv"
	"strings"

	"golang.org/x/tools/go/ssa"
)

type ghostDecl struct {
	name    string
	texpr   ast.Expr
	pkgPath string
}

// ghostType resolves the declared type of a ghost variable
func (e *env) ghostType(g *ghostDecl) types.Type {
	ge := &env{u: e.u, st: e.st, pkg: e.u.eng.typesPkg(g.pkgPath)}
	if mt, ok := g.texpr.(*ast.MapType); ok {
		k, v := ge.resolveType(mt.Key), ge.resolveType(mt.Value)
		if k == nil || v == nil {
			e.fail("ghost %s: unknown map type", g.name)
		}
		return types.NewMap(k, v)
	}
	t := ge.resolveType(g.texpr)
	if t == nil {
		e.fail("ghost %s: unknown type", g.name)
	}
	return t
}

func (e *engine) findGhost(from *types.Package, name string) *ghostDecl {
	if pc := e.contracts[from.Path()]; pc != nil {
		if g := pc.ghosts[name]; g != nil {
			return g
		}
	}
	if i := strings.Index(name, "."); i >= 0 {
		if p := e.importedPkg(from, name[:i]); p != nil {
			if pc := e.contracts[p.Path()]; pc != nil {
				return pc.ghosts[name[i+1:]]
			}
		}
	}
	return nil
}

func ghostKey(g *ghostDecl) string {
	return "G_" + strings.TrimPrefix(g.pkgPath, modPrefix+"/") + "_" + g.name
}

func (u *unit) ghostSorts(t types.Type) []string {
	if mt, ok := t.(*types.Map); ok {
		kl := u.m.leaves(mt.Key())
		if len(kl) != 1 {
			panic(engineErr("ghost map key must be scalar"))
		}
		var out []string
		for _, l := range u.m.leaves(mt.Elem()) {
			out = append(out, fmt.Sprintf("(Array %s %s)", kl[0].sort, l.sort))
		}
		return out
	}
	var out []string
	for _, l := range u.m.leaves(t) {
		out = append(out, l.sort)
	}
	return out
}

// ghostVal returns the current value of a ghost variable
func (e *env) ghostVal(g *ghostDecl) Val {
	key := ghostKey(g)
	if v, ok := e.st.ghost[key]; ok {
		return v
	}
	t := e.ghostType(g)
	var ss []string
	for i, srt := range e.u.ghostSorts(t) {
		gen := e.st.gen
		if i := strings.Index(gen, "~"); i >= 0 {
			gen = gen[:i] // `modifies *` of a callee does not reach ghost state
		}
		if e.st.cutMode && !e.u.mayModify(key) {
			gen = ""
		}
		ss = append(ss, e.u.declare(fmt.Sprintf("%s.%d@0%s", key, i, gen), srt))
	}
	v := Val{T: t, S: ss}
	e.st.ghost[key] = v
	return v
}

func (s *state) havocGhost(key string, t types.Type) {
	u := s.u
	u.fresh++
	var ss []string
	for i, srt := range u.ghostSorts(t) {
		ss = append(ss, u.declare(fmt.Sprintf("%s.%d@%d", key, i, u.fresh), srt))
	}
	v := Val{T: t, S: ss}
	if _, isMap := t.(*types.Map); !isMap {
		s.assumeTypeFacts(v)
	}
	s.ghost[key] = v
}

// ---- sites -------------------------------------------------------------------------------

type callSite struct {
	name string
	k    int
}

var callSiteCache = map[*ssa.Function]map[ssa.Instruction]callSite{}

func calleeName(c *ssa.CallCommon) string {
	if c.IsInvoke() {
		return c.Method.Name()
	}
	if f := c.StaticCallee(); f != nil {
		return f.Name()
	}
	switch v := c.Value.(type) {
	case *ssa.UnOp:
		if g, ok := v.X.(*ssa.Global); ok {
			return g.Name()
		}
		// a function value loaded from a struct field: the field's name
		if fa, ok := v.X.(*ssa.FieldAddr); ok {
			if pt, ok := fa.X.Type().Underlying().(*types.Pointer); ok {
				if st, ok := pt.Elem().Underlying().(*types.Struct); ok {
					return st.Field(fa.Field).Name()
				}
			}
		}
	case *ssa.Parameter:
		return v.Name()
	case *ssa.Builtin:
		return v.Name()
	}
	return "?"
}

func callSites(f *ssa.Function) map[ssa.Instruction]callSite {
	if m, ok := callSiteCache[f]; ok {
		return m
	}
	m := map[ssa.Instruction]callSite{}
	cnt := map[string]int{}
	// source order: sort call instructions by position
	type ci struct {
		in  ssa.Instruction
		pos token.Pos
		n   string
	}
	var all []ci
	for _, b := range f.Blocks {
		for _, in := range b.Instrs {
			if c, ok := in.(ssa.CallInstruction); ok {
				all = append(all, ci{in, in.Pos(), calleeName(c.Common())})
			}
		}
	}
	for i := 1; i < len(all); i++ {
		for j := i; j > 0 && all[j].pos < all[j-1].pos; j-- {
			all[j], all[j-1] = all[j-1], all[j]
		}
	}
	for _, c := range all {
		cnt[c.n]++
		m[c.in] = callSite{c.n, cnt[c.n]}
	}
	callSiteCache[f] = m
	return m
}

// siteExists: does the function (still) have the program point a site clause names?
func siteExists(fn *ssa.Function, site string) bool {
	w := strings.Fields(site)
	if len(w) == 0 {
		return false
	}
	if w[0] == "in" && len(w) >= 3 {
		// a program point of a closure defined in fn
		for _, af := range fn.AnonFuncs {
			if funcKey(af) == w[1] {
				return siteExists(af, strings.Join(w[2:], " "))
			}
		}
		return false
	}
	if w[0] == "after" {
		w = w[1:]
	}
	switch w[0] {
	case "entry":
		return true
	case "return":
		n := 0
		for _, b := range fn.Blocks {
			for _, in := range b.Instrs {
				if _, ok := in.(*ssa.Return); ok {
					n++
				}
			}
		}
		if len(w) == 1 {
			return n > 0
		}
		k, _ := strconv.Atoi(w[1])
		return k >= 1 && k <= n
	case "exit":
		// exit loop k: every edge that leaves the k-th loop
		if len(w) != 3 || w[1] != "loop" {
			return false
		}
		k, _ := strconv.Atoi(w[2])
		return k >= 1 && k <= len(loopsOf(fn))
	case "call":
		if len(w) < 3 {
			return false
		}
		k, _ := strconv.Atoi(w[2])
		for _, cs := range callSites(fn) {
			if cs.name == w[1] && cs.k == k {
				return true
			}
		}
		return false
	}
	return true // other kinds of site are not checked statically
}

// runSite executes the statement-level clauses attached to `site` of fn
func (s *state) runSite(fn *ssa.Function, site string, pos token.Pos, rs []Val) {
	outer := false
	fc := s.u.eng.contractFor(fn)
	if fc == nil && fn != s.u.fn && fn.Parent() != nil && s.u.ct != nil && rs == nil {
		// a closure without a contract of its own, executed inline: the enclosing function's
		// contract may attach clauses to its program points as `at in <closure> <site>`
		fc = s.u.ct
		site = "in " + funcKey(fn) + " " + site
		outer = true
	}
	if fc == nil {
		return
	}
	for _, ss := range fc.sites {
		if ss.site != site {
			continue
		}
		ss.used = true
		e := s.contractEnv(nil, fn, nil, nil)
		e.useNames = true
		e.pkg = fn.Pkg.Pkg
		if outer {
			e.old = s.old
		}
		if fn == s.u.fn {
			// parameters keep their entry meaning only via old(); names give current values
			e.old = s.old
			if rs != nil {
				re := s.contractEnv(fc, fn, nil, rs)
				for k, v := range re.vars {
					e.vars[k] = v
				}
			}
		}
		for i, c := range ss.clauses {
			e.what = fmt.Sprintf("%s at %s: %s", funcKey(fn), site, c.src)
			if c.kind == "use" || c.kind == "inst" {
				// proof hints: if one no longer binds to the code it is dropped;
				// the clauses that needed it then fail by name
				ok := func() (ok bool) {
					defer func() {
						if r := recover(); r != nil {
							if ee, isE := r.(engineErr); isE {
								s.u.notes["proof hint dropped (no longer binds): "+string(ee)] = true
								ok = false
								return
							}
							panic(r)
						}
					}()
					s.runHintClause(e, c, pos, fn, site)
					return true
				}()
				_ = ok
				continue
			}
			switch c.kind {
			case "assert":
				goal := ""
				func() {
					defer func() {
						if r := recover(); r != nil {
							if _, isEng := r.(engineErr); isEng && s.u.retries > 0 {
								// annotations of a restructured loop were dropped in this unit and the
								// assertion mentions what they defined: it can no longer be established
								goal = "false"
								return
							}
							panic(r)
						}
					}()
					goal = e.evalBool(c.e)
				}()
				s.oblige("assert", clauseLabel(c, i), c.src, goal, pos, funcKey(fn)+":"+strings.ReplaceAll(site, " ", "_"), c.deep)
				s.pc = append(s.pc, goal)
			case "use":
				for _, x := range c.exprs {
					s.useHint(e, x, pos, funcKey(fn)+":"+strings.ReplaceAll(site, " ", "_"))
				}
			case "inst":
				// extra instantiation candidates for quantified hypotheses
				for _, x := range c.exprs {
					v := e.eval(x)
					if v.K != nil {
						v = s.u.mat(v, nil)
					}
					for k, l := range s.u.m.leaves(v.T) {
						s.cands = append(s.cands, binder{v.S[k], l.sort})
					}
				}
			case "ghost":
				s.ghostAssign(e, c.label, c.e, pos)
			}
		}
	}
}

func (s *state) ghostAssign(e *env, name string, rhs *sexpr, pos token.Pos) {
	g := s.u.eng.findGhost(e.pkg, name)
	if g == nil {
		e.fail("unknown ghost variable %s", name)
	}
	v := e.eval(rhs)
	t := e.ghostType(g)
	if v.K != nil {
		v = s.u.mat(v, t)
	}
	v.T = t
	s.checkFrameGhost(ghostKey(g), pos)
	s.ghost[ghostKey(g)] = v
}

func (s *state) checkFrameGhost(key string, pos token.Pos) {
	u := s.u
	if u.ct == nil || u.ct.noframe || u.ct.modAll {
		return
	}
	e := s.contractEnv(u.ct, u.fn, s.entryArgs(), nil)
	for _, m := range u.ct.modifies {
		if id, ok := m.e.e.(*ast.Ident); ok {
			if g := u.eng.findGhost(e.pkg, id.Name); g != nil && ghostKey(g) == key {
				return
			}
		}
		if sel, ok := m.e.e.(*ast.SelectorExpr); ok {
			if g := u.eng.findGhost(e.pkg, exprStr(sel)); g != nil && ghostKey(g) == key {
				return
			}
		}
	}
	s.oblige("frame", "", "ghost variable "+key+" is written but not in the modifies clause", "false", pos, key, false)
}

// useInstance: `use L(args)` yields the instantiated body of axiom/lemma L
func (e *env) useInstance(x *sexpr) string {
	call, ok := x.e.(*ast.CallExpr)
	if !ok || x.op != "" {
		e.fail("use needs lemma(args)")
	}
	ne := *e
	ne.tab = x.tab
	name := exprStr(call.Fun)
	sf := e.u.eng.findSpec(e.pkg, name)
	if sf == nil || (sf.kind != "axiom" && sf.kind != "lemma") {
		e.fail("use: %s is not an axiom or lemma", name)
	}
	v := ne.applySpec(sf, call, nil)
	if sf.kind == "lemma" {
		e.u.notes["lemma used: "+sf.name+" (proved separately)"] = true
		e.u.eng.lemmasUsed[sf.pkgPath+"."+sf.name] = true
	} else {
		e.u.notes["axiom (definition of an uninterpreted spec function): "+sf.name] = true
	}
	return v.S[0]
}

func (e *env) ghostOf(x ast.Expr) *ghostDecl {
	switch n := x.(type) {
	case *ast.Ident:
		if _, shadow := e.vars[n.Name]; shadow {
			return nil
		}
		return e.u.eng.findGhost(e.pkg, n.Name)
	case *ast.SelectorExpr:
		if id, ok := n.X.(*ast.Ident); ok {
			return e.u.eng.findGhost(e.pkg, id.Name+"."+n.Sel.Name)
		}
	}
	return nil
}

func (s *state) runHintClause(e *env, c *clause, pos token.Pos, fn *ssa.Function, site string) {
	switch c.kind {
	case "use":
		for _, x := range c.exprs {
			s.useHint(e, x, pos, funcKey(fn)+":"+strings.ReplaceAll(site, " ", "_"))
		}
	case "inst":
		for _, x := range c.exprs {
			v := e.eval(x)
			if v.K != nil {
				v = s.u.mat(v, nil)
			}
			for k, l := range s.u.m.leaves(v.T) {
				s.cands = append(s.cands, binder{v.S[k], l.sort})
			}
		}
	}
}

// useHint: `use L(args)` assumes an axiom/lemma instance; `use <bool expr>`
// for anything else is a proof step: asserted (obligation) and then assumed.
// isLemmaFormula: built only from lemma/axiom instances (possibly guarded,
// conjoined or universally quantified) - valid, hence sound to assume
func (s *state) isLemmaFormula(e *env, x *sexpr) bool {
	if x.op == "==>" {
		return s.isLemmaFormula(e, x.b)
	}
	if x.op != "" {
		return false
	}
	var chk func(n ast.Expr) bool
	chk = func(n ast.Expr) bool {
		switch t := n.(type) {
		case *ast.ParenExpr:
			return chk(t.X)
		case *ast.BinaryExpr:
			return t.Op == token.LAND && chk(t.X) && chk(t.Y)
		case *ast.Ident:
			if sub, ok := x.tab[t.Name]; ok {
				return s.isLemmaFormula(e, sub)
			}
		case *ast.CallExpr:
			name := exprStr(t.Fun)
			if sf := s.u.eng.findSpec(e.pkg, name); sf != nil && (sf.kind == "axiom" || sf.kind == "lemma") {
				if sf.kind == "lemma" {
					s.u.notes["lemma used: "+sf.name+" (proved separately)"] = true
				}
				return true
			}
			if name == "forall" && len(t.Args) >= 3 {
				return chk(t.Args[len(t.Args)-1])
			}
		}
		return false
	}
	return chk(x.e)
}

func (s *state) useHint(e *env, x *sexpr, pos token.Pos, site string) {
	if x.op == "==>" && s.isLemmaFormula(e, x) {
		s.pc = append(s.pc, e.evalBool(x))
		return
	}
	if x.op == "" {
		if be, ok := x.e.(*ast.BinaryExpr); ok && be.Op == token.LAND && s.isLemmaFormula(e, x) {
			s.pc = append(s.pc, e.evalBool(x))
			return
		}
	}
	if call, ok := x.e.(*ast.CallExpr); ok && x.op == "" {
		if sf := s.u.eng.findSpec(e.pkg, exprStr(call.Fun)); sf != nil && (sf.kind == "axiom" || sf.kind == "lemma") {
			s.pc = append(s.pc, e.useInstance(x))
			return
		}
		// forall(x, T, ..., Lemma(args)): a universally quantified lemma instance
		if id, ok := call.Fun.(*ast.Ident); ok && id.Name == "forall" && len(call.Args) >= 3 {
			if inner, ok := call.Args[len(call.Args)-1].(*ast.CallExpr); ok {
				if sf := s.u.eng.findSpec(e.pkg, exprStr(inner.Fun)); sf != nil && (sf.kind == "axiom" || sf.kind == "lemma") {
					s.pc = append(s.pc, e.evalBool(x))
					if sf.kind == "lemma" {
						s.u.notes["lemma used: "+sf.name+" (proved separately)"] = true
					}
					return
				}
			}
		}
		// old(Axiom(args)): the instance is taken over the entry state
		if id, ok := call.Fun.(*ast.Ident); ok && id.Name == "old" && len(call.Args) == 1 && e.old != nil {
			if inner, ok := call.Args[0].(*ast.CallExpr); ok {
				if sf := s.u.eng.findSpec(e.pkg, exprStr(inner.Fun)); sf != nil && (sf.kind == "axiom" || sf.kind == "lemma") {
					oe := e.with(e.old.scratch())
					s.pc = append(s.pc, oe.useInstance(&sexpr{e: inner, tab: x.tab, src: x.src}))
					return
				}
			}
		}
	}
	goal := e.evalBool(x)
	s.oblige("hint", "", x.src, goal, pos, site, false)
	s.pc = append(s.pc, goal)
}
