package main

func proveLemmas(e *engine, id string, errs *[]string) []*unit { return nil }
