package main

// Lemmas: proved once (by induction on a parameter, or directly) as ground
// obligations; `use L(args)` then assumes an instance.

import (
	"fmt"

	"golang.org/x/tools/go/ssa"
	"go/types"
	"math/big"
	"sort"
	"strings"
)

func proveLemmas(e *engine, id string, errs *[]string) []*unit {
	var out []*unit
	var paths []string
	for p := range e.contracts {
		paths = append(paths, p)
	}
	sort.Strings(paths)
	for _, pp := range paths {
		pc := e.contracts[pp]
		for _, name := range pc.sorder {
			sf := pc.specs[name]
			if sf.kind != "lemma" || !hasProp(sf.props, id) {
				continue
			}
			u := &unit{eng: e, lemma: sf, m: mode{intMode: pc.mode == "int"}, decls: map[string]string{}, notes: map[string]bool{}, closures: map[string]*closureVal{}, siteOrd: map[string]int{}, inlined: map[string]bool{}, ghostTypes: map[string]types.Type{}, cutHeaders: map[*ssa.BasicBlock]bool{}, cutDone: map[*ssa.BasicBlock]bool{}}
			func() {
				defer func() {
					if r := recover(); r != nil {
						if ee, ok := r.(engineErr); ok {
							*errs = append(*errs, u.name()+": "+string(ee))
						} else {
							*errs = append(*errs, fmt.Sprintf("%s: internal error: %v [%s]", u.name(), r, shortStack()))
						}
					}
				}()
				u.runLemma()
			}()
			out = append(out, u)
		}
	}
	return out
}

func (u *unit) runLemma() {
	sf := u.lemma
	pkg := u.eng.typesPkg(sf.pkgPath)
	mk := func() (*state, *env) {
		s := &state{u: u, vals: nil, heaps: map[string]string{}, hsort: map[string]string{}, names: map[string]nameBinding{}, ghost: map[string]Val{}}
		e := &env{u: u, st: s, pkg: pkg, vars: map[string]Val{}, what: "lemma " + sf.name}
		return s, e
	}
	bindParams := func(s *state, e *env) {
		for i, pn := range sf.pnames {
			t := e.resolveType(sf.ptypes[i])
			if t == nil {
				e.fail("unknown parameter type %s", exprStr(sf.ptypes[i]))
			}
			e.vars[pn] = s.symVal(pn, t)
		}
	}
	addHints := func(s *state, e *env) {
		for _, h := range sf.using {
			s.pc = append(s.pc, e.useInstance(h))
		}
	}
	pos := fmt.Sprintf("%s:%d", strings.TrimPrefix(u.eng.contracts[sf.pkgPath].file, u.eng.repo+"/"), sf.line)
	emit := func(s *state, kind, goal string) {
		o := &oblig{name: u.name() + "#" + kind, kind: "lemma-" + kind, clause: sf.src, pos: pos, pc: append([]string(nil), s.pc...), goal: goal}
		u.obligs = append(u.obligs, o)
	}
	proof := strings.Fields(sf.proof)
	if len(proof) == 2 && proof[0] == "induction" {
		iv := proof[1]
		// base
		s, e := mk()
		bindParams(s, e)
		t := e.vars[iv].T
		e.vars[iv] = u.mat(Val{K: big.NewInt(0)}, t)
		addHints(s, e)
		emit(s, "base", e.evalBool(sf.body))
		// step: body(k) and k+1 does not wrap |- body(k+1)
		s, e = mk()
		bindParams(s, e)
		k := e.vars[iv]
		addHints(s, e)
		s.pc = append(s.pc, e.evalBool(sf.body))
		k1 := u.arith(tokADD, k, Val{K: big.NewInt(1)}, nil)
		s.pc = append(s.pc, not(eq(k1.S[0], u.mat(Val{K: big.NewInt(0)}, t).S[0])))
		e2 := *e
		e2.vars = map[string]Val{}
		for n, v := range e.vars {
			e2.vars[n] = v
		}
		k1.T = t
		e2.vars[iv] = k1
		emit(s, "step", e2.evalBool(sf.body))
		return
	}
	// direct proof
	s, e := mk()
	bindParams(s, e)
	addHints(s, e)
	emit(s, "direct", e.evalBool(sf.body))
}
