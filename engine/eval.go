package main

// Contract expression evaluation: sexpr -> symbolic Val in a given state.

import (
	"fmt"
	"go/ast"
	"go/constant"
	"go/token"
	"go/types"
	"math/big"
	"strconv"
	"strings"

	"golang.org/x/tools/go/ssa"
)

type env struct {
	u        *unit
	st       *state
	old      *state
	vars     map[string]Val
	pkg      *types.Package
	useNames bool
	depth    int
	tab      map[string]*sexpr
	what     string // for error messages
	cur      *state // the state contract evaluation started in (ghost locals live there)
	topHint  types.Type // expected type of the whole expression (spec function result)
	free     map[string]Val // captured variables of a closure under contract: name -> cell address
}

func (e *env) with(st *state) *env {
	n := *e
	if n.cur == nil {
		n.cur = e.st
	}
	n.st = st
	return &n
}

func (e *env) bind(name string, v Val) *env {
	n := *e
	n.vars = make(map[string]Val, len(e.vars)+1)
	for k, x := range e.vars {
		n.vars[k] = x
	}
	n.vars[name] = v
	return &n
}

// loopClauseErr: a clause of a loop whose header was restructured no longer evaluates
type loopClauseErr struct {
	spec *loopSpec
	msg  string
}

func (e *env) fail(format string, a ...interface{}) {
	if e.u != nil && e.u.curLoopSpec != nil && e.u.curLoopSpec.hintMismatch {
		panic(loopClauseErr{e.u.curLoopSpec, fmt.Sprintf("contract %s: %s", e.what, fmt.Sprintf(format, a...))})
	}
	panic(engineErr(fmt.Sprintf("contract %s: %s", e.what, fmt.Sprintf(format, a...))))
}

func (e *env) evalBool(x *sexpr) string {
	v := e.eval(x)
	if !isBool(v.T) {
		e.fail("expression %q is not boolean (type %v)", x.src, v.T)
	}
	return v.S[0]
}

func (e *env) eval(x *sexpr) Val {
	switch x.op {
	case "==>":
		return Val{T: types.Typ[types.Bool], S: []string{implies(e.evalBool(x.a), e.evalBool(x.b))}}
	case "<==>":
		return Val{T: types.Typ[types.Bool], S: []string{eq(e.evalBool(x.a), e.evalBool(x.b))}}
	}
	n := *e
	n.tab = x.tab
	h := n.topHint
	n.topHint = nil
	return n.ev(x.e, h)
}

func boolVal(s string) Val { return Val{T: types.Typ[types.Bool], S: []string{s}} }

// resolveType resolves a type expression in the env's package scope
func (e *env) resolveType(x ast.Expr) types.Type {
	switch t := x.(type) {
	case *ast.Ident:
		if t.Name == "memory" {
			return memType
		}
		if o := types.Universe.Lookup(t.Name); o != nil {
			if tn, ok := o.(*types.TypeName); ok {
				return tn.Type()
			}
		}
		if o := e.pkg.Scope().Lookup(t.Name); o != nil {
			if tn, ok := o.(*types.TypeName); ok {
				return tn.Type()
			}
		}
	case *ast.SelectorExpr:
		if id, ok := t.X.(*ast.Ident); ok {
			if p := e.u.eng.importedPkg(e.pkg, id.Name); p != nil {
				if o := p.Scope().Lookup(t.Sel.Name); o != nil {
					if tn, ok := o.(*types.TypeName); ok {
						return tn.Type()
					}
				}
			}
		}
	case *ast.StarExpr:
		if b := e.resolveType(t.X); b != nil {
			return types.NewPointer(b)
		}
	case *ast.ArrayType:
		if b := e.resolveType(t.Elt); b != nil {
			if t.Len == nil {
				return types.NewSlice(b)
			}
			if bl, ok := t.Len.(*ast.BasicLit); ok {
				n, _ := strconv.ParseInt(bl.Value, 0, 64)
				return types.NewArray(b, n)
			}
		}
	case *ast.ParenExpr:
		return e.resolveType(t.X)
	case *ast.IndexExpr:
		if id, ok := t.X.(*ast.Ident); ok && id.Name == "arr" {
			if el := e.resolveType(t.Index); el != nil {
				return arrTypeOf(el)
			}
		}
	case *ast.InterfaceType:
		return types.NewInterfaceType(nil, nil)
	}
	return nil
}

func (e *env) lookupObj(name string) types.Object {
	if o := e.pkg.Scope().Lookup(name); o != nil {
		return o
	}
	return nil
}

func (e *env) constVal(c *types.Const) Val {
	if c.Val().Kind() == constant.Bool {
		return boolVal(fmt.Sprint(constant.BoolVal(c.Val())))
	}
	v := constant.ToInt(c.Val())
	switch v.Kind() {
	case constant.Int:
		bi, _ := new(big.Int).SetString(v.ExactString(), 10)
		if isUntyped(c.Type()) {
			return Val{T: types.Typ[types.UntypedInt], K: bi}
		}
		return e.u.mat(Val{K: bi}, c.Type())
	case constant.Bool:
		return boolVal(fmt.Sprint(constant.BoolVal(c.Val())))
	}
	if c.Val().Kind() == constant.String {
		return e.st.stringConst(constant.StringVal(c.Val()))
	}
	e.fail("unsupported constant %s", c.Name())
	return Val{}
}

func (e *env) globalVal(v *types.Var) Val {
	g := e.u.eng.globalFor(v)
	if g == nil {
		e.fail("no SSA global for %s", v.Name())
	}
	if iv, ok := e.st.globalInit(g); ok {
		return iv
	}
	p := e.st.get(g)
	return e.st.loadAt(v.Type(), p.S[0], p.S[1], nil)
}

func (e *env) ev(x ast.Expr, hint types.Type) Val {
	u := e.u
	switch n := x.(type) {
	case *ast.ParenExpr:
		return e.ev(n.X, hint)
	case *ast.BasicLit:
		switch n.Kind {
		case token.INT:
			bi, ok := new(big.Int).SetString(strings.ReplaceAll(n.Value, "_", ""), 0)
			if !ok {
				e.fail("bad integer literal %s", n.Value)
			}
			return Val{T: types.Typ[types.UntypedInt], K: bi}
		case token.CHAR:
			r, _, _, err := strconv.UnquoteChar(n.Value[1:len(n.Value)-1], '\'')
			if err != nil {
				e.fail("bad char literal %s", n.Value)
			}
			return Val{T: types.Typ[types.UntypedInt], K: big.NewInt(int64(r))}
		case token.STRING:
			s, err := strconv.Unquote(n.Value)
			if err != nil {
				e.fail("bad string literal")
			}
			return e.st.stringConst(s)
		}
	case *ast.Ident:
		switch n.Name {
		case "mem":
			if _, shadow := e.vars["mem"]; !shadow {
				return Val{T: memType, S: []string{e.st.heap("M", "(_ BitVec 8)")}}
			}
		case "true", "false":
			return boolVal(n.Name)
		case "nil":
			return Val{T: types.Typ[types.UntypedNil], S: []string{"0", u.m.offConst(0)}}
		}
		if sub, ok := e.tab[n.Name]; ok && strings.HasPrefix(n.Name, "PH__") {
			return e.eval(sub)
		}
		if v, ok := e.vars[n.Name]; ok {
			return v
		}
		if fp, ok := e.free[n.Name]; ok {
			return e.st.loadPtr(fp, fp.T.Underlying().(*types.Pointer).Elem())
		}
		if v, ok := e.st.ghost["L_"+n.Name]; ok {
			return v
		}
		if e.cur != nil {
			if v, ok := e.cur.ghost["L_"+n.Name]; ok {
				return v
			}
		}
		if g := u.eng.findGhost(e.pkg, n.Name); g != nil {
			return e.ghostVal(g)
		}
		if e.useNames {
			src := e.st
			nb, ok := src.names[n.Name]
			if !ok && e.cur != nil {
				// inside old(): locals are SSA values of the current path
				src = e.cur
				nb, ok = src.names[n.Name]
			}
			if !ok && e.u.ct != nil && e.u.ct.aliases != nil {
				if nn, renamed := e.u.ct.aliases[n.Name]; renamed {
					nb, ok = src.names[nn]
					if !ok && e.cur != nil {
						src = e.cur
						nb, ok = src.names[nn]
					}
				}
			}
			if !ok {
				// inside an inlined callee: the callers' variables, innermost first
				fs := e.st
				if e.cur != nil {
					fs = e.cur
				}
				for i := len(fs.frames) - 1; i >= 0 && !ok; i-- {
					nb, ok = fs.frames[i].names[n.Name]
					src = fs
				}
			}
			if ok {
				v := src.get(nb.v)
				if nb.isAddr {
					pt := nb.v.Type().Underlying().(*types.Pointer)
					return e.st.loadPtr(v, pt.Elem())
				}
				return v
			}
		}
		if o := e.lookupObj(n.Name); o != nil {
			switch ob := o.(type) {
			case *types.Const:
				return e.constVal(ob)
			case *types.Var:
				return e.globalVal(ob)
			case *types.Func:
				return Val{T: ob.Type(), S: []string{fmt.Sprint(u.eng.funcID(u.eng.ssaFuncFor(ob)))}}
			}
		}
		e.fail("unknown identifier %q", n.Name)
	case *ast.SelectorExpr:
		if id, ok := n.X.(*ast.Ident); ok {
			if _, isVar := e.vars[id.Name]; !isVar {
				if _, isName := e.st.names[id.Name]; !isName || !e.useNames {
					if p := u.eng.importedPkg(e.pkg, id.Name); p != nil {
						o := p.Scope().Lookup(n.Sel.Name)
						switch ob := o.(type) {
						case *types.Const:
							return e.constVal(ob)
						case *types.Var:
							return e.globalVal(ob)
						}
						if g := u.eng.findGhost(e.pkg, id.Name+"."+n.Sel.Name); g != nil {
							return e.ghostVal(g)
						}
						e.fail("unknown %s.%s", id.Name, n.Sel.Name)
					}
				}
			}
		}
		if id, ok := n.X.(*ast.Ident); ok {
			// field of a package-level struct variable: go through its address so that the
			// struct is never loaded as a value
			_, isVar := e.vars[id.Name]
			_, isName := e.st.names[id.Name]
			if !isVar && !(isName && e.useNames) && e.pkg != nil {
				if v, ok := e.pkg.Scope().Lookup(id.Name).(*types.Var); ok {
					if _, isStruct := v.Type().Underlying().(*types.Struct); isStruct {
						return e.field(e.addrOf(n.X), n.Sel.Name)
					}
				}
			}
		}
		if ix, ok := n.X.(*ast.IndexExpr); ok {
			// s[i].f: read the one field through the element's address (do not load the element)
			if p, ok := e.tryAddrOf(ix); ok {
				if pt, isPtr := p.T.Underlying().(*types.Pointer); isPtr {
					if _, isStruct := pt.Elem().Underlying().(*types.Struct); isStruct {
						return e.field(p, n.Sel.Name)
					}
				}
			}
		}
		base := e.ev(n.X, nil)
		return e.field(base, n.Sel.Name)
	case *ast.StarExpr:
		p := e.ev(n.X, nil)
		pt, ok := p.T.Underlying().(*types.Pointer)
		if !ok {
			e.fail("deref of non-pointer")
		}
		return e.st.loadPtr(p, pt.Elem())
	case *ast.UnaryExpr:
		if n.Op == token.AND {
			return e.addrOf(n.X)
		}
		a := e.ev(n.X, hint)
		return u.unary(n.Op, a, nil)
	case *ast.BinaryExpr:
		switch n.Op {
		case token.LAND:
			return boolVal(and(e.ev(n.X, nil).S[0], e.ev(n.Y, nil).S[0]))
		case token.LOR:
			return boolVal(or(e.ev(n.X, nil).S[0], e.ev(n.Y, nil).S[0]))
		}
		a := e.ev(n.X, nil)
		var bh types.Type
		if a.K == nil && isInteger(a.T) && n.Op != token.SHL && n.Op != token.SHR {
			bh = a.T
		}
		b := e.ev(n.Y, bh)
		if a.K == nil && b.K == nil && !isInteger(a.T) || (a.K == nil && !isInteger(a.T)) || (b.K == nil && !isInteger(b.T)) {
			// non-integer comparison
			if n.Op != token.EQL && n.Op != token.NEQ {
				e.fail("operator %s on non-integers (%v, %v)", n.Op, a.T, b.T)
			}
			r := e.valEq(a, b)
			if n.Op == token.NEQ {
				r = not(r)
			}
			return boolVal(r)
		}
		if u.m.intMode && a.K == nil && b.K == nil && isInteger(a.T) && isInteger(b.T) {
			// int mode: spec integers are mathematical, operand types may differ
			r := u.arith(n.Op, a, Val{T: a.T, S: b.S}, nil)
			return r
		}
		if a.K == nil && b.K == nil && n.Op != token.SHL && n.Op != token.SHR && width(a.T) != width(b.T) {
			e.fail("mismatched integer types %v and %v in %q", a.T, b.T, exprStr(x))
		}
		if a.K == nil && b.K == nil && n.Op != token.SHL && n.Op != token.SHR && isSigned(a.T) != isSigned(b.T) {
			e.fail("mixed signedness %v and %v in %q", a.T, b.T, exprStr(x))
		}
		var obl oblFn
		if !u.m.intMode {
			obl = nil
		}
		r := u.arith(n.Op, a, b, obl)
		if r.K != nil && hint != nil && !isUntyped(hint) {
			return u.mat(r, hint)
		}
		return r
	case *ast.IndexExpr:
		base := e.arrayBase(n.X)
		idx := e.ev(n.Index, types.Typ[types.Int])
		return e.index(base, idx)
	case *ast.SliceExpr:
		base := e.arrayBase(n.X)
		return e.sliceOf(base, n)
	case *ast.CallExpr:
		return e.call(n, hint)
	}
	e.fail("unsupported expression %s (%T)", exprStr(x), x)
	return Val{}
}

func exprStr(x ast.Expr) string {
	var sb strings.Builder
	ast.Fprint(&sb, nil, x, nil)
	s := types.ExprString(x)
	return s
}

func (e *env) valEq(a, b Val) string {
	if a.K != nil || b.K != nil {
		e.fail("constant compared with non-integer")
	}
	if isUntypedNil(a.T) && !isUntypedNil(b.T) {
		a, b = b, a
	}
	if isUntypedNil(b.T) {
		// compare the identifying leaf with zero
		switch a.T.Underlying().(type) {
		case *types.Pointer:
			return nilTest(a)
		case *types.Slice, *types.Map:
			return eq(a.S[0], "0")
		case *types.Signature:
			return eq(a.S[0], "0")
		case *types.Interface:
			return eq(a.S[0], "0")
		case *types.Basic:
			return nilTest(a)
		}
	}
	if len(a.S) != len(b.S) {
		e.fail("comparison of values of different shape (%v vs %v)", a.T, b.T)
	}
	var cs []string
	for i := range a.S {
		cs = append(cs, eq(a.S[i], b.S[i]))
	}
	return and(cs...)
}

func isUntypedNil(t types.Type) bool {
	b, ok := t.(*types.Basic)
	return ok && b.Kind() == types.UntypedNil
}

func (e *env) field(base Val, name string) Val {
	t := base.T
	if pt, ok := t.Underlying().(*types.Pointer); ok {
		st, ok := pt.Elem().Underlying().(*types.Struct)
		if !ok {
			e.fail("field %s of non-struct pointer %v", name, t)
		}
		fs, offs := structFields(st)
		for i, f := range fs {
			if f.Name() == name {
				if isRawRef(base.S[0]) {
					return e.st.loadAt(f.Type(), rawRef, bvadd(base.S[1], e.u.m.offConst(offs[i])), nil)
				}
				if isInlineField(f.Type()) {
					return e.st.loadAt(f.Type(), base.S[0], e.u.m.offAdd(base.S[1], e.u.m.offConst(offs[i])), nil)
				}
				return e.st.loadAt(f.Type(), "", "", &fieldRef{heap: "H_" + tname(pt.Elem()) + "_" + name, ref: base.S[0], off: base.S[1]})
			}
		}
		// embedded / promoted fields are not supported
		e.fail("no field %s in %v", name, pt.Elem())
	}
	if st, ok := t.Underlying().(*types.Struct); ok {
		k := 0
		for i := 0; i < st.NumFields(); i++ {
			n := len(e.u.m.leaves(st.Field(i).Type()))
			if st.Field(i).Name() == name {
				return Val{T: st.Field(i).Type(), S: base.S[k : k+n]}
			}
			k += n
		}
		e.fail("no field %s in %v", name, t)
	}
	e.fail("selector .%s on %v", name, t)
	return Val{}
}

// arrayBase evaluates the operand of an index/slice expression; an array-typed struct field
// (x.buf) is taken by address so that large arrays are never loaded as values
func (e *env) arrayBase(x ast.Expr) Val {
	if id, ok := x.(*ast.Ident); ok && e.pkg != nil {
		// a package-level array variable: by address (never loaded as a value)
		_, isVar := e.vars[id.Name]
		_, isName := e.st.names[id.Name]
		if !isVar && !(isName && e.useNames) {
			if v, ok := e.pkg.Scope().Lookup(id.Name).(*types.Var); ok {
				if _, isArr := v.Type().Underlying().(*types.Array); isArr {
					return e.addrOf(x)
				}
			}
		}
	}
	if sel, ok := x.(*ast.SelectorExpr); ok {
		if _, isPkg := sel.X.(*ast.Ident); !isPkg || e.u.eng.importedPkg(e.pkg, sel.X.(*ast.Ident).Name) == nil || e.vars[sel.X.(*ast.Ident).Name].T != nil || e.useNames {
			func() {
				defer func() { recover() }()
			}()
			if p, ok := e.tryAddrOfArrayField(sel); ok {
				return p
			}
		}
	}
	return e.ev(x, nil)
}

func (e *env) tryAddrOf(x ast.Expr) (v Val, ok bool) {
	defer func() {
		if r := recover(); r != nil {
			if _, isEng := r.(engineErr); isEng {
				panic(r)
			}
			ok = false
		}
	}()
	return e.addrOf(x), true
}

func (e *env) tryAddrOfArrayField(sel *ast.SelectorExpr) (v Val, ok bool) {
	defer func() {
		if r := recover(); r != nil {
			ok = false
		}
	}()
	base := e.ev(sel.X, nil)
	pt, isPtr := base.T.Underlying().(*types.Pointer)
	if !isPtr {
		return Val{}, false
	}
	st, isStruct := pt.Elem().Underlying().(*types.Struct)
	if !isStruct {
		return Val{}, false
	}
	for i := 0; i < st.NumFields(); i++ {
		if st.Field(i).Name() == sel.Sel.Name {
			if _, isArr := st.Field(i).Type().Underlying().(*types.Array); isArr {
				return e.addrOf(sel), true
			}
		}
	}
	return Val{}, false
}

func (e *env) idxTerm(idx Val) string {
	if idx.K != nil {
		return e.u.m.offConst(idx.K.Int64())
	}
	if e.u.m.intMode {
		return idx.S[0]
	}
	return e.u.resize(idx.S[0], idx.T, types.Typ[types.Int64], true)
}

func (e *env) index(base, idx Val) Val {
	m := e.u.m
	i := e.idxTerm(idx)
	switch bt := base.T.Underlying().(type) {
	case *types.Slice:
		esz := sizes.Sizeof(bt.Elem())
		return e.st.loadAt(bt.Elem(), base.S[0], m.offAdd(base.S[1], m.offMulConst(i, esz)), nil)
	case *types.Basic: // string
		return e.st.loadAt(types.Typ[types.Uint8], base.S[0], m.offAdd(base.S[1], i), nil)
	case *types.Pointer:
		if at, ok := bt.Elem().Underlying().(*types.Array); ok {
			esz := sizes.Sizeof(at.Elem())
			return e.st.loadAt(at.Elem(), base.S[0], m.offAdd(base.S[1], m.offMulConst(i, esz)), nil)
		}
	case *types.Array:
		if idx.K != nil {
			n := len(m.leaves(bt.Elem()))
			k := int(idx.K.Int64())
			return Val{T: bt.Elem(), S: base.S[k*n : (k+1)*n]}
		}
	case *types.Map: // ghost map
		if idx.K != nil {
			idx = e.u.mat(idx, bt.Key())
		}
		var ss []string
		for _, a := range base.S {
			ss = append(ss, fmt.Sprintf("(select %s %s)", a, idx.S[0]))
		}
		return Val{T: bt.Elem(), S: ss}
	}
	e.fail("cannot index %v", base.T)
	return Val{}
}

func (e *env) sliceOf(base Val, n *ast.SliceExpr) Val {
	m := e.u.m
	if pt, isPtr := base.T.Underlying().(*types.Pointer); isPtr {
		if at, isArr := pt.Elem().Underlying().(*types.Array); isArr {
			// slicing an array through its address
			base = Val{T: types.NewSlice(at.Elem()), S: []string{base.S[0], base.S[1], m.offConst(at.Len()), m.offConst(at.Len())}}
		}
	}
	bt, ok := base.T.Underlying().(*types.Slice)
	if !ok {
		e.fail("slice expression on %v", base.T)
	}
	lo := m.offConst(0)
	if n.Low != nil {
		lo = e.idxTerm(e.ev(n.Low, nil))
	}
	hi := base.S[2]
	if n.High != nil {
		hi = e.idxTerm(e.ev(n.High, nil))
	}
	esz := sizes.Sizeof(bt.Elem())
	sub := func(a, b string) string {
		if m.intMode {
			return fmt.Sprintf("(- %s %s)", a, b)
		}
		return fmt.Sprintf("(bvsub %s %s)", a, b)
	}
	return Val{T: base.T, S: []string{base.S[0], m.offAdd(base.S[1], m.offMulConst(lo, esz)), sub(hi, lo), sub(base.S[3], lo)}}
}

// addrOf evaluates &x for a location expression
func (e *env) addrOf(x ast.Expr) Val {
	m := e.u.m
	switch n := x.(type) {
	case *ast.ParenExpr:
		return e.addrOf(n.X)
	case *ast.Ident:
		if fp, ok := e.free[n.Name]; ok {
			if _, shadow := e.vars[n.Name]; !shadow {
				return fp
			}
		}
		if e.useNames {
			if nb, ok := e.st.names[n.Name]; ok && nb.isAddr {
				return e.st.get(nb.v)
			}
		}
		if o := e.lookupObj(n.Name); o != nil {
			if v, ok := o.(*types.Var); ok {
				g := e.u.eng.globalFor(v)
				return e.st.get(g)
			}
		}
	case *ast.SelectorExpr:
		if id, ok := n.X.(*ast.Ident); ok {
			if p := e.u.eng.importedPkg(e.pkg, id.Name); p != nil {
				if _, shadow := e.vars[id.Name]; !shadow {
					if v, ok := p.Scope().Lookup(n.Sel.Name).(*types.Var); ok {
						return e.st.get(e.u.eng.globalFor(v))
					}
				}
			}
		}
		base := e.ev(n.X, nil)
		pt, ok := base.T.Underlying().(*types.Pointer)
		if !ok {
			if _, isStruct := base.T.Underlying().(*types.Struct); isStruct {
				base = e.addrOf(n.X) // x.inner.f: address of the inline struct first
				pt = base.T.Underlying().(*types.Pointer)
			} else {
				e.fail("&x.f needs pointer base")
			}
		}
		st := pt.Elem().Underlying().(*types.Struct)
		fs, offs := structFields(st)
		for i, f := range fs {
			if f.Name() == n.Sel.Name {
				v := Val{T: types.NewPointer(f.Type()), S: []string{base.S[0], m.offAdd(base.S[1], m.offConst(offs[i]))}}
				if !isInlineField(f.Type()) && !isRawRef(base.S[0]) {
					v.Fld = &fieldRef{heap: "H_" + tname(pt.Elem()) + "_" + f.Name(), ref: base.S[0], off: base.S[1]}
				}
				return v
			}
		}
	case *ast.IndexExpr:
		base := e.ev(n.X, nil)
		i := e.idxTerm(e.ev(n.Index, types.Typ[types.Int]))
		switch bt := base.T.Underlying().(type) {
		case *types.Slice:
			return Val{T: types.NewPointer(bt.Elem()), S: []string{base.S[0], m.offAdd(base.S[1], m.offMulConst(i, sizes.Sizeof(bt.Elem())))}}
		case *types.Pointer:
			if at, ok := bt.Elem().Underlying().(*types.Array); ok {
				return Val{T: types.NewPointer(at.Elem()), S: []string{base.S[0], m.offAdd(base.S[1], m.offMulConst(i, sizes.Sizeof(at.Elem())))}}
			}
		}
	case *ast.StarExpr:
		return e.ev(n.X, nil)
	}
	e.fail("cannot take address of %s", exprStr(x))
	return Val{}
}

func (e *env) call(n *ast.CallExpr, hint types.Type) Val {
	u := e.u
	m := u.m
	// type conversion?
	if t := e.resolveType(n.Fun); t != nil && len(n.Args) == 1 {
		if _, isIdent := n.Fun.(*ast.Ident); !isIdent || e.vars[n.Fun.(*ast.Ident).Name].T == nil {
			a := e.ev(n.Args[0], t)
			return e.convert(a, t)
		}
	}
	name := ""
	switch f := n.Fun.(type) {
	case *ast.Ident:
		name = f.Name
	case *ast.SelectorExpr:
		if id, ok := f.X.(*ast.Ident); ok {
			name = id.Name + "." + f.Sel.Name
		}
	}
	switch name {
	case "len", "cap":
		a := e.ev(n.Args[0], nil)
		k := 2
		if name == "cap" {
			k = 3
		}
		switch at := a.T.Underlying().(type) {
		case *types.Slice:
			return Val{T: types.Typ[types.Int], S: []string{a.S[k]}}
		case *types.Basic:
			return Val{T: types.Typ[types.Int], S: []string{a.S[2]}}
		case *types.Array:
			return Val{T: types.Typ[types.UntypedInt], K: big.NewInt(at.Len())}
		case *types.Pointer:
			if arr, ok := at.Elem().Underlying().(*types.Array); ok {
				return Val{T: types.Typ[types.UntypedInt], K: big.NewInt(arr.Len())}
			}
		}
		e.fail("len of %v", a.T)
	case "old":
		if e.old == nil {
			e.fail("old() not available here")
		}
		o := e.with(e.old)
		r := o.ev(n.Args[0], hint)
		e.mergeFacts(o)
		return r
	case "before":
		// value at entry of the innermost enclosing loop
		if e.st.curLoopPre == nil {
			e.fail("before() outside a loop invariant")
		}
		o := e.with(e.st.curLoopPre)
		o.useNames = e.useNames
		r := o.ev(n.Args[0], hint)
		e.mergeFacts(o)
		return r
	case "forall", "exists":
		// forall(i, T, body) ; several variables: forall(i, T, j, U, body)
		if len(n.Args) < 3 || len(n.Args)%2 == 0 {
			e.fail("%s(i, T, body)", name)
		}
		ne := e
		var binders []string
		var facts []string
		for k := 0; k+1 < len(n.Args)-1; k += 2 {
			id, ok := n.Args[k].(*ast.Ident)
			if !ok {
				e.fail("%s: bound variable must be an identifier", name)
			}
			t := e.resolveType(n.Args[k+1])
			if t == nil {
				e.fail("%s: unknown type %s", name, exprStr(n.Args[k+1]))
			}
			u.fresh++
			ls := m.leaves(t)
			var ss []string
			for _, l := range ls {
				bn := fmt.Sprintf("|%s%s!b%d|", id.Name, l.path, u.fresh)
				binders = append(binders, fmt.Sprintf("(%s %s)", bn, l.sort))
				ss = append(ss, bn)
				if f := e.st.leafFact(l, bn); f != "" {
					facts = append(facts, f)
				}
			}
			ne = ne.bind(id.Name, Val{T: t, S: ss})
		}
		// evaluate body in a scratch state so that load facts do not leak
		// bound variables into the path condition
		sub := ne.with(ne.st.scratch())
		body := sub.ev(n.Args[len(n.Args)-1], nil)
		if !isBool(body.T) {
			e.fail("%s body must be boolean", name)
		}
		bs := body.S[0]
		if name == "forall" {
			return boolVal(fmt.Sprintf("(forall (%s) %s)", strings.Join(binders, " "), implies(and(facts...), bs)))
		}
		return boolVal(fmt.Sprintf("(exists (%s) %s)", strings.Join(binders, " "), and(append(facts, bs)...)))
	case "ite":
		c := e.ev(n.Args[0], nil)
		a := e.ev(n.Args[1], hint)
		b := e.ev(n.Args[2], hint)
		if a.K != nil && b.K != nil {
			a = u.mat(a, hint)
			b = u.mat(b, hint)
		}
		if a.K != nil {
			a = u.mat(a, b.T)
		}
		if b.K != nil {
			b = u.mat(b, a.T)
		}
		var ss []string
		for i := range a.S {
			ss = append(ss, ite(c.S[0], a.S[i], b.S[i]))
		}
		return Val{T: a.T, S: ss}
	case "mem8", "mem16", "mem32", "mem64":
		a := e.ev(n.Args[0], types.Typ[types.Uintptr])
		a = u.mat(a, types.Typ[types.Uintptr])
		nb := map[string]int64{"mem8": 1, "mem16": 2, "mem32": 4, "mem64": 8}[name]
		ts := map[string]types.Type{"mem8": types.Typ[types.Uint8], "mem16": types.Typ[types.Uint16], "mem32": types.Typ[types.Uint32], "mem64": types.Typ[types.Uint64]}[name]
		return Val{T: ts, S: []string{e.st.rawLoadBits(a.S[0], nb)}}
	case "memat8", "memat16", "memat32", "memat64":
		mv := e.ev(n.Args[0], nil)
		if mv.T != memType {
			e.fail("%s(m memory, addr)", name)
		}
		a := u.mat(e.ev(n.Args[1], types.Typ[types.Uintptr]), types.Typ[types.Uintptr])
		nb := map[string]int64{"memat8": 1, "memat16": 2, "memat32": 4, "memat64": 8}[name]
		ts := map[string]types.Type{"memat8": types.Typ[types.Uint8], "memat16": types.Typ[types.Uint16], "memat32": types.Typ[types.Uint32], "memat64": types.Typ[types.Uint64]}[name]
		var parts []string
		for i := nb - 1; i >= 0; i-- {
			parts = append(parts, fmt.Sprintf("(select %s %s)", mv.S[0], bvadd(a.S[0], u.m.offConst(i))))
		}
		if nb == 1 {
			return Val{T: ts, S: parts}
		}
		return Val{T: ts, S: []string{"(concat " + strings.Join(parts, " ") + ")"}}
	case "rawptr":
		// rawptr(T, addr): *T at raw address
		t := e.resolveType(n.Args[0])
		if t == nil {
			e.fail("rawptr(T, addr)")
		}
		a := u.mat(e.ev(n.Args[1], types.Typ[types.Uintptr]), types.Typ[types.Uintptr])
		return Val{T: types.NewPointer(t), S: []string{rawRef, a.S[0]}}
	case "addrof":
		// numeric address of a raw pointer / offset of a typed one
		a := e.ev(n.Args[0], nil)
		return Val{T: types.Typ[types.Uintptr], S: []string{a.S[1]}}
	case "upd":
		// upd(ghostMap, key, value)
		mv := e.ev(n.Args[0], nil)
		mt, ok := mv.T.(*types.Map)
		if !ok {
			e.fail("upd on non-ghost-map")
		}
		k := e.ev(n.Args[1], mt.Key())
		if k.K != nil {
			k = u.mat(k, mt.Key())
		}
		v := e.ev(n.Args[2], mt.Elem())
		if v.K != nil {
			v = u.mat(v, mt.Elem())
		}
		var ss []string
		for i, a := range mv.S {
			ss = append(ss, fmt.Sprintf("(store %s %s %s)", a, k.S[0], v.S[i]))
		}
		return Val{T: mv.T, S: ss}
	case "contents":
		// contents(s): the element array of the allocation unit a slice / string / pointer lives in
		a := e.ev(n.Args[0], nil)
		var el types.Type
		switch at := a.T.Underlying().(type) {
		case *types.Slice:
			el = at.Elem()
		case *types.Pointer:
			el = at.Elem()
			if arr, ok := el.Underlying().(*types.Array); ok {
				el = arr.Elem()
			}
		case *types.Basic:
			el = types.Typ[types.Uint8]
		default:
			e.fail("contents of %v", a.T)
		}
		ls := m.leaves(el)
		if len(ls) != 1 || isRawRef(a.S[0]) {
			e.fail("contents(): scalar elements in typed memory only")
		}
		h := e.st.heap("E_"+tname(el), ls[0].sort)
		return Val{T: arrTypeOf(el), S: []string{fmt.Sprintf("(select %s %s)", h, a.S[0])}}
	case "at":
		c := e.ev(n.Args[0], nil)
		nt, _ := c.T.(*types.Named)
		el, ok := arrElem[nt]
		if !ok {
			e.fail("at(c arr[T], byteOffset)")
		}
		o := u.mat(e.ev(n.Args[1], types.Typ[types.Uintptr]), types.Typ[types.Uintptr])
		return Val{T: el, S: []string{fmt.Sprintf("(select %s %s)", c.S[0], o.S[0])}}
	case "updat":
		c := e.ev(n.Args[0], nil)
		nt, _ := c.T.(*types.Named)
		el, ok := arrElem[nt]
		if !ok {
			e.fail("updat(c arr[T], byteOffset, v)")
		}
		o := u.mat(e.ev(n.Args[1], types.Typ[types.Uintptr]), types.Typ[types.Uintptr])
		v := e.ev(n.Args[2], el)
		if v.K != nil {
			v = u.mat(v, el)
		}
		return Val{T: c.T, S: []string{fmt.Sprintf("(store %s %s %s)", c.S[0], o.S[0], v.S[0])}}
	case "isnil":
		a := e.ev(n.Args[0], nil)
		if _, isPtr := a.T.Underlying().(*types.Pointer); isPtr || len(a.S) == 2 {
			return boolVal(nilTest(a))
		}
		return boolVal(eq(a.S[0], "0"))
	case "israw":
		a := e.ev(n.Args[0], nil)
		return boolVal(eq(a.S[0], rawRef))
	case "sameobj":
		a := e.ev(n.Args[0], nil)
		b := e.ev(n.Args[1], nil)
		return boolVal(eq(a.S[0], b.S[0]))
	case "dataptr":
		// address component of a slice / string / pointer
		a := e.ev(n.Args[0], nil)
		return Val{T: types.Typ[types.Uintptr], S: []string{a.S[1]}}
	case "typeis":
		// typeis(ifaceValue, T)
		a := e.ev(n.Args[0], nil)
		t := e.resolveType(n.Args[1])
		if t == nil {
			e.fail("typeis: unknown type")
		}
		return boolVal(eq(a.S[0], fmt.Sprint(u.eng.typeID(t))))
	case "implements":
		// implements(ifaceValue, I): non-nil and the dynamic type implements interface I
		a := e.ev(n.Args[0], nil)
		t := e.resolveType(n.Args[1])
		if t == nil {
			e.fail("implements: unknown type")
		}
		return boolVal(and(not(eq(a.S[0], "0")), e.st.implTerm(a.S[0], t)))
	case "arg":
		// arg(paramName): the operand passed for that parameter at the call a site clause is attached to
		if id, ok := n.Args[0].(*ast.Ident); ok && e.st != nil && e.st.callArgs != nil {
			if v, ok := e.st.callArgs[id.Name]; ok {
				return v
			}
		}
		e.fail("arg(...): no such parameter at this call site")
	case "result":
		// result(): the value returned by the call an `after call` clause is attached to
		if e.st != nil && e.st.callResult != nil && len(n.Args) == 0 {
			return *e.st.callResult
		}
		e.fail("result(): only in `after call` clauses of calls that return one value")
	case "unbox":
		// unbox(ifaceValue, T)
		a := e.ev(n.Args[0], nil)
		t := e.resolveType(n.Args[1])
		if t == nil {
			e.fail("unbox: unknown type")
		}
		return e.st.loadBox(t, a.S[1])
	}
	// spec function
	if sf := u.eng.findSpec(e.pkg, name); sf != nil {
		return e.applySpec(sf, n, hint)
	}
	e.fail("unknown function %q in contract", name)
	return Val{}
}

func (e *env) mergeFacts(o *env) {}

func (e *env) convert(a Val, t types.Type) Val {
	u := e.u
	if a.K != nil {
		if isInteger(t) {
			return u.mat(Val{K: new(big.Int).Set(a.K)}, t)
		}
		e.fail("constant converted to %v", t)
	}
	switch {
	case isInteger(a.T) && isInteger(t):
		return Val{T: t, S: []string{u.resize(a.S[0], a.T, t, true)}}
	case isInteger(t) && len(a.S) >= 2: // pointer -> uintptr
		return Val{T: t, S: []string{a.S[1]}}
	case isInteger(a.T): // uintptr -> pointer: raw
		x := u.resize(a.S[0], a.T, types.Typ[types.Uintptr], true)
		return Val{T: t, S: []string{rawRef, x}}
	}
	if len(u.m.leaves(a.T)) == len(u.m.leaves(t)) {
		return Val{T: t, S: a.S, Fld: a.Fld}
	}
	e.fail("unsupported conversion %v -> %v", a.T, t)
	return Val{}
}

func (e *env) applySpec(sf *specFun, n *ast.CallExpr, hint types.Type) Val {
	u := e.u
	if len(n.Args) != len(sf.pnames) {
		e.fail("spec %s: %d arguments, want %d", sf.name, len(n.Args), len(sf.pnames))
	}
	spkg := u.eng.typesPkg(sf.pkgPath)
	tenv := &env{u: u, st: e.st, old: e.old, pkg: spkg, what: e.what}
	args := make([]Val, len(n.Args))
	for i, a := range n.Args {
		pt := tenv.resolveType(sf.ptypes[i])
		if pt == nil {
			e.fail("spec %s: unknown parameter type %s", sf.name, exprStr(sf.ptypes[i]))
		}
		v := e.ev(a, pt)
		if v.K != nil {
			v = u.mat(v, pt)
		}
		if isUntypedNil(v.T) {
			v = Val{T: pt, S: u.m.zeroVal(pt).S}
		}
		if len(v.S) != len(u.m.leaves(pt)) {
			e.fail("spec %s: argument %d has type %v, want %v", sf.name, i+1, v.T, pt)
		}
		v.T = pt
		args[i] = v
	}
	var rt types.Type = types.Typ[types.Bool]
	if sf.ret != nil {
		rt = tenv.resolveType(sf.ret)
		if rt == nil {
			e.fail("spec %s: unknown result type", sf.name)
		}
	}
	switch sf.kind {
	case "ufun":
		var asorts, aterms []string
		for i, a := range args {
			for j, l := range u.m.leaves(a.T) {
				asorts = append(asorts, l.sort)
				aterms = append(aterms, args[i].S[j])
			}
		}
		rl := u.m.leaves(rt)
		if len(rl) != 1 {
			e.fail("ufun %s must return a scalar", sf.name)
		}
		f := u.declareFun("uf_"+sf.name, asorts, rl[0].sort)
		r := Val{T: rt, S: []string{fmt.Sprintf("(%s %s)", f, strings.Join(aterms, " "))}}
		if len(aterms) == 0 {
			r.S[0] = f
		}
		if fct := e.st.leafFact(rl[0], r.S[0]); fct != "" && !strings.Contains(strings.Join(aterms, " "), "!b") {
			e.st.pc = append(e.st.pc, fct)
		}
		return r
	}
	if e.depth > 40 {
		e.fail("spec recursion too deep at %s", sf.name)
	}
	sub := &env{u: u, st: e.st, old: e.old, pkg: spkg, vars: map[string]Val{}, depth: e.depth + 1, what: e.what + "/" + sf.name, cur: e.cur, topHint: rt}
	for i, pn := range sf.pnames {
		sub.vars[pn] = args[i]
	}
	r := sub.eval(sf.body)
	if r.K != nil {
		r = u.mat(r, rt)
	}
	r.T = rt
	return r
}

// ---- state helpers used by the evaluator -------------------------------------

func (s *state) loadPtr(p Val, elem types.Type) Val {
	return s.loadAt(elem, p.S[0], p.S[1], p.Fld)
}

// scratch returns a copy whose path-condition additions are discarded
func (s *state) scratch() *state {
	n := *s
	n.pc = append([]string(nil), s.pc...)
	return &n
}

func (s *state) stringConst(str string) Val {
	u := s.u
	id := u.eng.stringID(str)
	ref := fmt.Sprint(id)
	v := Val{T: types.Typ[types.String], S: []string{ref, u.m.offConst(0), u.m.offConst(int64(len(str)))}}
	// contents (read-only memory): asserted on the current byte heap
	if len(str) <= 64 {
		for i := 0; i < len(str); i++ {
			s.pc = append(s.pc, eq(s.rd("E_uint8", u.m.intSort(8), ref, u.m.offConst(int64(i))), u.m.intConst(big.NewInt(int64(str[i])), 8)))
		}
	}
	return v
}

var _ = ssa.GlobalDebug
