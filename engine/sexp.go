package main

// Minimal s-expression utilities over term strings: goal skolemisation and
// instantiation of universally quantified hypotheses at the goal's skolem
// constants ("ground first").

import (
	"fmt"
	"strings"
)

// splitSexp splits "(head a b c)" into [head a b c]; returns nil for atoms
func splitSexp(t string) []string {
	t = strings.TrimSpace(t)
	if len(t) < 2 || t[0] != '(' || t[len(t)-1] != ')' {
		return nil
	}
	inner := t[1 : len(t)-1]
	var out []string
	d := 0
	inq := false
	start := -1
	for i := 0; i < len(inner); i++ {
		c := inner[i]
		if inq {
			if c == '|' {
				inq = false
			}
			continue
		}
		switch c {
		case '|':
			inq = true
			if start < 0 {
				start = i
			}
		case '(':
			if start < 0 {
				start = i
			}
			d++
		case ')':
			d--
			if d < 0 {
				return nil
			}
		case ' ', '\n', '\t':
			if d == 0 && start >= 0 {
				out = append(out, inner[start:i])
				start = -1
			}
		default:
			if start < 0 {
				start = i
			}
		}
	}
	if d != 0 || inq {
		return nil
	}
	if start >= 0 {
		out = append(out, inner[start:])
	}
	return out
}

type binder struct{ name, sort string }

// parseForall parses "(forall ((x S) (y T)) body)"
func parseQuant(t string) (kind string, bs []binder, body string, ok bool) {
	p := splitSexp(t)
	if len(p) != 3 || (p[0] != "forall" && p[0] != "exists") {
		return "", nil, "", false
	}
	for _, b := range splitSexp(p[1]) {
		bp := splitSexp(b)
		if len(bp) != 2 {
			return "", nil, "", false
		}
		bs = append(bs, binder{bp[0], bp[1]})
	}
	return p[0], bs, p[2], true
}

func substSym(body, name, repl string) string {
	if strings.HasPrefix(name, "|") {
		return strings.ReplaceAll(body, name, repl)
	}
	// bare symbol: replace whole tokens only
	var sb strings.Builder
	i := 0
	for i < len(body) {
		j := strings.Index(body[i:], name)
		if j < 0 {
			sb.WriteString(body[i:])
			break
		}
		j += i
		end := j + len(name)
		okL := j == 0 || strings.ContainsRune(" ()", rune(body[j-1]))
		okR := end == len(body) || strings.ContainsRune(" ()", rune(body[end]))
		sb.WriteString(body[i:j])
		if okL && okR {
			sb.WriteString(repl)
		} else {
			sb.WriteString(name)
		}
		i = end
	}
	return sb.String()
}

// skolemize replaces positive universal quantifiers of a goal by fresh
// constants; returns the new goal and the constants introduced.
func (u *unit) skolemize(goal string, sk *[]binder, depth int) string {
	if depth > 8 {
		return goal
	}
	if kind, bs, body, ok := parseQuant(goal); ok && kind == "forall" {
		for _, b := range bs {
			u.fresh++
			base := strings.Trim(b.name, "|")
			c := u.declare(fmt.Sprintf("sk_%s!%d", base, u.fresh), b.sort)
			*sk = append(*sk, binder{c, b.sort})
			body = substSym(body, b.name, c)
		}
		return u.skolemize(body, sk, depth+1)
	}
	p := splitSexp(goal)
	if p == nil {
		return goal
	}
	switch p[0] {
	case "=>":
		if len(p) == 3 {
			return "(=> " + p[1] + " " + u.skolemize(p[2], sk, depth+1) + ")"
		}
	case "and":
		for i := 1; i < len(p); i++ {
			p[i] = u.skolemize(p[i], sk, depth+1)
		}
		return "(and " + strings.Join(p[1:], " ") + ")"
	case "let":
		if len(p) == 3 {
			return "(let " + p[1] + " " + u.skolemize(p[2], sk, depth+1) + ")"
		}
	}
	return goal
}

// instances returns ground instances of the positive universal quantifiers of
// hypothesis h at the given constants, and whether h contains such quantifiers.
func instances(h string, consts []binder, depth int) (inst []string, hasQ bool) {
	if depth > 8 || !strings.Contains(h, "(forall ") {
		return nil, false
	}
	if kind, bs, body, ok := parseQuant(h); ok {
		if kind != "forall" {
			return nil, false
		}
		// candidate tuples
		cands := [][]string{{}}
		for _, b := range bs {
			var next [][]string
			for _, c := range consts {
				if c.sort != b.sort {
					continue
				}
				for _, t := range cands {
					next = append(next, append(append([]string{}, t...), c.name))
				}
			}
			cands = next
			if len(cands) > 64 {
				cands = cands[:64]
			}
		}
		for _, t := range cands {
			if len(t) != len(bs) {
				continue
			}
			g := body
			for i, b := range bs {
				g = substSym(g, b.name, t[i])
			}
			inst = append(inst, g)
			// nested quantifiers inside the instance
			if sub, ok := instances(g, consts, depth+1); ok {
				inst = append(inst, sub...)
			}
		}
		return inst, true
	}
	p := splitSexp(h)
	if p == nil {
		return nil, false
	}
	switch p[0] {
	case "and":
		for i := 1; i < len(p); i++ {
			sub, q := instances(p[i], consts, depth+1)
			inst = append(inst, sub...)
			hasQ = hasQ || q
		}
		return inst, hasQ
	case "=>":
		if len(p) == 3 {
			sub, q := instances(p[2], consts, depth+1)
			for _, s := range sub {
				inst = append(inst, "(=> "+p[1]+" "+s+")")
			}
			return inst, q
		}
	}
	return nil, false
}

// ufApps collects closed applications of uninterpreted spec functions in t
// (instantiation candidates), with their result sorts.
func (u *unit) ufApps(t string, max int) []binder {
	var out []binder
	seen := map[string]bool{}
	var walk func(x string)
	walk = func(x string) {
		if len(out) >= max {
			return
		}
		p := splitSexp(x)
		if p == nil {
			return
		}
		if strings.HasPrefix(p[0], "|uf_") && !strings.Contains(x, "!b") && !strings.Contains(x, "!c") {
			if d, ok := u.decls[p[0]]; ok && !seen[x] {
				// (declare-fun |uf_x| (args) ret)
				if i := strings.LastIndex(d, ") "); i >= 0 {
					seen[x] = true
					out = append(out, binder{x, strings.TrimSuffix(d[i+2:], ")")})
				}
			}
		}
		if p[0] == "forall" || p[0] == "exists" {
			return
		}
		for _, a := range p[1:] {
			walk(a)
		}
	}
	walk(t)
	return out
}

func dedupBinders(bs []binder, maxPerSort int) []binder {
	seen := map[string]bool{}
	cnt := map[string]int{}
	var out []binder
	for _, b := range bs {
		if seen[b.name] || cnt[b.sort] >= maxPerSort {
			continue
		}
		seen[b.name] = true
		cnt[b.sort]++
		out = append(out, b)
	}
	return out
}

func flattenAnd(t string, depth int) []string {
	if depth > 6 {
		return []string{t}
	}
	p := splitSexp(t)
	if p == nil || p[0] != "and" {
		return []string{t}
	}
	var out []string
	for _, a := range p[1:] {
		out = append(out, flattenAnd(a, depth+1)...)
	}
	return out
}

// collectUfApps records every closed application of a spec function that
// occurs outside quantifier bodies
func collectUfApps(t string, set map[string]bool) {
	if !strings.Contains(t, "|uf_") {
		return
	}
	p := splitSexp(t)
	if p == nil {
		return
	}
	if p[0] == "forall" || p[0] == "exists" {
		return
	}
	if strings.HasPrefix(p[0], "|uf_") {
		set[t] = true
	}
	for _, a := range p[1:] {
		collectUfApps(a, set)
	}
}

func relevantInstance(g string, known map[string]bool) bool {
	mine := map[string]bool{}
	collectUfApps(g, mine)
	for a := range mine {
		if !known[a] {
			return false
		}
	}
	return true
}

// memIndexTerms: the address terms X of (select |M@k| X) occurring in t,
// with a trailing constant offset stripped as well
func memIndexTerms(t string, max int) []string {
	var out []string
	seen := map[string]bool{}
	var walk func(x string)
	walk = func(x string) {
		if len(out) >= max || !strings.Contains(x, "|M@") {
			return
		}
		p := splitSexp(x)
		if p == nil {
			return
		}
		if p[0] == "forall" || p[0] == "exists" {
			return
		}
		if p[0] == "select" && len(p) == 3 && strings.HasPrefix(p[1], "|M@") {
			if !seen[p[2]] && !strings.Contains(p[2], "!b") {
				seen[p[2]] = true
				out = append(out, p[2])
			}
		}
		for _, a := range p[1:] {
			walk(a)
		}
	}
	walk(t)
	return out
}

// heapIndexTerms: the offset terms X of (select (select |E_..| ref) X) in t
func heapIndexTerms(t string, max int) []string {
	var out []string
	seen := map[string]bool{}
	var walk func(x string)
	walk = func(x string) {
		if len(out) >= max || !strings.Contains(x, "|E_") {
			return
		}
		p := splitSexp(x)
		if p == nil {
			return
		}
		if p[0] == "forall" || p[0] == "exists" {
			return
		}
		if p[0] == "select" && len(p) == 3 {
			if q := splitSexp(p[1]); q != nil && q[0] == "select" && len(q) == 3 && strings.HasPrefix(q[1], "|E_") {
				if !seen[p[2]] && !strings.Contains(p[2], "!b") {
					if _, lit := intLit(p[2]); !lit {
						seen[p[2]] = true
						// offset = base offset of the slice + index: the index is what spec quantifiers range over
						scaled := func(part string) {
							// index scaled by the element size: the index itself
							if r := splitSexp(part); r != nil && (r[0] == "bvmul" || r[0] == "*") && len(r) == 3 {
								for _, f := range r[1:] {
									if _, lit := intLit(f); !lit && !seen[f] && !strings.HasPrefix(f, "(_ bv") {
										seen[f] = true
										out = append(out, f)
									}
								}
							}
						}
						if q := splitSexp(p[2]); q != nil && (q[0] == "+" || q[0] == "bvadd") && len(q) == 3 {
							for _, part := range q[1:] {
								if _, lit := intLit(part); !lit && !seen[part] && !strings.HasPrefix(part, "(select (select |H_") {
									seen[part] = true
									out = append(out, part)
								}
								scaled(part)
							}
						} else {
							scaled(p[2])
						}
						out = append(out, p[2])
					}
				}
			}
		}
		for _, a := range p[1:] {
			walk(a)
		}
	}
	walk(t)
	return out
}

// fieldReadsOf: subterms (select (select |H_..| ref) off) of t that mention one of the skolem
// constants, with the element sort of the heap
func (u *unit) fieldReadsOf(t string, sk []binder, max int) []binder {
	var out []binder
	seen := map[string]bool{}
	mentions := func(x string) bool {
		for _, b := range sk {
			if strings.Contains(x, b.name) {
				return true
			}
		}
		return false
	}
	var walk func(x string)
	walk = func(x string) {
		if len(out) >= max || !strings.Contains(x, "|H_") {
			return
		}
		p := splitSexp(x)
		if p == nil {
			return
		}
		if p[0] == "forall" || p[0] == "exists" {
			return
		}
		if p[0] == "select" && len(p) == 3 {
			if q := splitSexp(p[1]); q != nil && q[0] == "select" && len(q) == 3 && strings.HasPrefix(q[1], "|H_") && mentions(x) && !seen[x] {
				if d, ok := u.decls[q[1]]; ok {
					// (declare-const |name| (Array Int (Array OFF ELEM)))
					if i := strings.LastIndex(d, ") "); i >= 0 {
					}
					if j := strings.Index(d, "(Array Int (Array "); j >= 0 {
						rest := d[j+len("(Array Int (Array "):]
						// skip the offset sort
						k := 0
						if strings.HasPrefix(rest, "(") {
							k = strings.Index(rest, ")") + 1
						} else {
							k = strings.Index(rest, " ")
						}
						el := strings.TrimSpace(rest[k:])
						el = strings.TrimSuffix(el, ")))")
						seen[x] = true
						out = append(out, binder{x, el})
					}
				}
			}
		}
		for _, a := range p[1:] {
			walk(a)
		}
	}
	walk(t)
	return out
}
