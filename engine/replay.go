package main

func replayOnRealCode(eng *engine, id string, j job, replayPath string) bool { return false }
