package main

// Replay of a solver counterexample on the real code.
//
// For an obligation refuted with a model (`sat`) the engine extracts, by walking the types of
// the function's parameters and of the package-level variables it touches, the concrete entry
// state the model describes (scalars, structs, arrays, slices, pointers to those), generates an
// in-package Go test that builds exactly that state, calls the real function and prints its
// results and the final contents of the same objects, runs it with `go test -overlay` (nothing
// is written into the repository), and compares what the real code did with what the model
// predicts:
//
//   - the real code panics where a safety obligation (index, slice bounds, nil, type assertion,
//     explicit panic) was refuted                                  -> confirmed
//   - the real code returns exactly the results and leaves exactly the object contents the
//     model predicts, i.e. the values for which the solver showed the clause false -> confirmed
//   - anything else (divergence, crash, unsupported shape)          -> not confirmed; the
//     VIOLATION line keeps `no-failing-input-found` and the replay file says why.
//
// Out of reach (reported as such): raw memory, interface- and function-typed inputs, closures,
// ghost state in the refuted clause, slices longer than 256 elements in every model.

import (
	"go/ast"
	"bytes"
	"context"
	"encoding/json"
	"fmt"
	"go/types"
	"math/big"
	"os"
	"os/exec"
	"path/filepath"
	"sort"
	"strconv"
	"strings"
	"time"

	"golang.org/x/tools/go/ssa"
)

type rloc struct {
	t    types.Type
	ref  string
	off  string
	fld  *fieldRef
	term []string // entry-state leaf terms
}

type rnode struct {
	kind    string // scalar ptr slice struct array unsupported
	t       types.Type
	loc     *rloc
	goExpr  string
	fields  []*rnode
	fnames  []string
	elems   []*rnode
	pointee *rnode
	why     string
}

type replayer struct {
	u        *unit
	o        *oblig
	entry    *state
	post     *state
	pkg      *types.Package
	imports  map[string]string // path -> name
	terms    []string
	seenTerm map[string]bool
	vals     map[string]string
	bad      string
	nobj     int
	decls    []string // Go statements building the inputs
	leaves   []*rnode // scalar leaves with a location (compared after the call)
	objs     map[string]string
	stubs    map[string]string
	stubCode []string
}

func (r *replayer) fail(f string, a ...interface{}) {
	if r.bad == "" {
		r.bad = fmt.Sprintf(f, a...)
	}
}

func (r *replayer) want(ts ...string) {
	for _, t := range ts {
		if !r.seenTerm[t] {
			r.seenTerm[t] = true
			r.terms = append(r.terms, t)
		}
	}
}

func (r *replayer) typeName(t types.Type) string {
	return types.TypeString(t, func(p *types.Package) string {
		if p == r.pkg {
			return ""
		}
		r.imports[p.Path()] = p.Name()
		return p.Name()
	})
}

func exportedOrLocal(t types.Type, pkg *types.Package) bool {
	ok := true
	var walk func(t types.Type)
	seen := map[types.Type]bool{}
	walk = func(t types.Type) {
		if seen[t] {
			return
		}
		seen[t] = true
		switch x := t.(type) {
		case *types.Named:
			if x.Obj().Pkg() != nil && x.Obj().Pkg() != pkg && !x.Obj().Exported() {
				ok = false
			}
		case *types.Pointer:
			walk(x.Elem())
		case *types.Slice:
			walk(x.Elem())
		case *types.Array:
			walk(x.Elem())
		}
	}
	walk(t)
	return ok
}

// build describes the value of type t stored at (ref, off) [fld for a scalar struct field]
func (r *replayer) build(t types.Type, ref, off string, fld *fieldRef, depth int) *rnode {
	m := r.u.m
	n := &rnode{t: t}
	if depth > 4 {
		n.kind, n.why = "unsupported", "nesting too deep"
		return n
	}
	switch u := t.Underlying().(type) {
	case *types.Struct:
		n.kind = "struct"
		fs, offs := structFields(u)
		for i, f := range fs {
			var c *rnode
			if isInlineField(f.Type()) {
				c = r.build(f.Type(), ref, m.offAdd(off, m.offConst(offs[i])), nil, depth+1)
			} else {
				c = r.build(f.Type(), ref, "", &fieldRef{heap: "H_" + tname(t) + "_" + f.Name(), ref: ref, off: off}, depth+1)
			}
			n.fields = append(n.fields, c)
			n.fnames = append(n.fnames, f.Name())
		}
		return n
	case *types.Array:
		n.kind = "array"
		if u.Len() > 4096 {
			n.kind, n.why = "unsupported", "large array"
			return n
		}
		if _, basic := u.Elem().Underlying().(*types.Basic); basic && u.Len() > 64 {
			// large scalar arrays: only the elements the query mentions are fixed; rest zero
			n.kind = "bigarray"
			n.loc = &rloc{t: t, ref: ref, off: off}
			return n
		}
		esz := sizes.Sizeof(u.Elem())
		for i := int64(0); i < u.Len(); i++ {
			n.elems = append(n.elems, r.build(u.Elem(), ref, m.offAdd(off, m.offConst(i*esz)), nil, depth+1))
		}
		return n
	}
	st := r.entry.scratch()
	v := st.loadAt(t, ref, off, fld)
	n.loc = &rloc{t: t, ref: ref, off: off, fld: fld, term: v.S}
	r.describe(n, v, depth)
	return n
}

func (r *replayer) describe(n *rnode, v Val, depth int) {
	switch u := n.t.Underlying().(type) {
	case *types.Basic:
		if u.Kind() == types.String || u.Kind() == types.UnsafePointer {
			n.kind, n.why = "unsupported", "string/unsafe.Pointer input"
			return
		}
		n.kind = "scalar"
		r.want(v.S...)
	case *types.Pointer:
		n.kind = "ptr"
		r.want(v.S[0], v.S[1])
		if _, isStruct := u.Elem().Underlying().(*types.Struct); isStruct && depth < 3 {
			n.pointee = r.build(u.Elem(), v.S[0], v.S[1], nil, depth+1)
		} else if _, isBasic := u.Elem().Underlying().(*types.Basic); isBasic && depth < 3 {
			n.pointee = r.build(u.Elem(), v.S[0], v.S[1], nil, depth+1)
		} else {
			n.pointee = &rnode{kind: "unsupported", why: "pointer target " + u.Elem().String()}
		}
	case *types.Slice:
		n.kind = "slice"
		r.want(v.S...)
	case *types.Interface:
		// a non-nil interface value is replayed with a do-nothing stub implementation
		n.kind = "iface"
		r.want(v.S[0])
	default:
		n.kind, n.why = "unsupported", fmt.Sprintf("%s input", n.t)
	}
}

// stubFor returns the name of a generated do-nothing implementation of interface type t
func (r *replayer) stubFor(t types.Type) (string, bool) {
	it, ok := t.Underlying().(*types.Interface)
	if !ok {
		return "", false
	}
	key := t.String()
	if name, ok := r.stubs[key]; ok {
		return name, true
	}
	name := fmt.Sprintf("govcStub%d", len(r.stubs)+1)
	var sb strings.Builder
	sb.WriteString(fmt.Sprintf("// %s: do-nothing stand-in for a %s\ntype %s struct{}\n\n", name, r.typeName(t), name))
	for i := 0; i < it.NumMethods(); i++ {
		m := it.Method(i)
		if !m.Exported() && m.Pkg() != r.pkg {
			return "", false
		}
		sig := m.Type().(*types.Signature)
		var ps, rs []string
		for k := 0; k < sig.Params().Len(); k++ {
			pt := sig.Params().At(k).Type()
			if !exportedOrLocal(pt, r.pkg) {
				return "", false
			}
			ts := r.typeName(pt)
			if sig.Variadic() && k == sig.Params().Len()-1 {
				ts = "..." + r.typeName(pt.(*types.Slice).Elem())
			}
			ps = append(ps, fmt.Sprintf("p%d %s", k, ts))
		}
		for k := 0; k < sig.Results().Len(); k++ {
			rt := sig.Results().At(k).Type()
			if !exportedOrLocal(rt, r.pkg) {
				return "", false
			}
			rs = append(rs, fmt.Sprintf("r%d %s", k, r.typeName(rt)))
		}
		sb.WriteString(fmt.Sprintf("func (*%s) %s(%s) (%s) { return }\n", name, m.Name(), strings.Join(ps, ", "), strings.Join(rs, ", ")))
	}
	if r.stubs == nil {
		r.stubs = map[string]string{}
	}
	r.stubs[key] = name
	r.stubCode = append(r.stubCode, sb.String())
	return name, true
}

func (r *replayer) val(term string) string {
	if v, ok := r.vals[term]; ok {
		return v
	}
	// literals evaluate to themselves
	return term
}

func smtInt(v string) (*big.Int, bool) {
	v = strings.TrimSpace(v)
	switch {
	case strings.HasPrefix(v, "#x"):
		n, ok := new(big.Int).SetString(v[2:], 16)
		return n, ok
	case strings.HasPrefix(v, "#b"):
		n, ok := new(big.Int).SetString(v[2:], 2)
		return n, ok
	case strings.HasPrefix(v, "(- "):
		n, ok := new(big.Int).SetString(strings.TrimSuffix(strings.TrimSpace(v[3:]), ")"), 10)
		if ok {
			n.Neg(n)
		}
		return n, ok
	case strings.HasPrefix(v, "(_ bv"):
		f := strings.Fields(v[5:])
		if len(f) > 0 {
			n, ok := new(big.Int).SetString(f[0], 10)
			return n, ok
		}
	}
	n, ok := new(big.Int).SetString(v, 10)
	return n, ok
}

// goLit renders the model value of a scalar leaf as a Go expression of type t
func (r *replayer) goLit(t types.Type, v string) (string, bool) {
	b, ok := t.Underlying().(*types.Basic)
	if !ok {
		return "", false
	}
	tn := r.typeName(t)
	if b.Info()&types.IsBoolean != 0 {
		if v == "true" || v == "false" {
			return tn + "(" + v + ")", true
		}
		return "", false
	}
	n, ok := smtInt(v)
	if !ok {
		return "", false
	}
	bits := int(sizes.Sizeof(t)) * 8
	if b.Info()&types.IsUnsigned == 0 && b.Info()&types.IsInteger != 0 {
		// two's complement
		if n.Sign() >= 0 && n.BitLen() == bits {
			n = new(big.Int).Sub(n, new(big.Int).Lsh(big.NewInt(1), uint(bits)))
		}
		if n.Sign() < 0 {
			// T(-x) : avoid constant overflow for the minimum value by going through a variable-free expression
			return fmt.Sprintf("%s(%s)", tn, n.String()), true
		}
	}
	return fmt.Sprintf("%s(%s)", tn, n.String()), true
}

func canon(t types.Type, v string) string {
	b, ok := t.Underlying().(*types.Basic)
	if !ok {
		return v
	}
	if b.Info()&types.IsBoolean != 0 {
		return v
	}
	n, ok := smtInt(v)
	if !ok {
		return v
	}
	bits := int(sizes.Sizeof(t)) * 8
	if b.Info()&types.IsUnsigned == 0 && n.Sign() >= 0 && n.BitLen() == bits {
		n = new(big.Int).Sub(n, new(big.Int).Lsh(big.NewInt(1), uint(bits)))
	}
	return n.String()
}

// emit generates Go code that builds the value described by n and returns an expression for it;
// leaves with a location are registered for the comparison after the call
func (r *replayer) emit(n *rnode, target string) {
	switch n.kind {
	case "scalar":
		lit, ok := r.goLit(n.t, r.val(n.loc.term[0]))
		if !ok {
			r.fail("no value for %s", target)
			return
		}
		r.decls = append(r.decls, fmt.Sprintf("%s = %s", target, lit))
		n.goExpr = target
		r.leaves = append(r.leaves, n)
	case "struct":
		for i, f := range n.fields {
			if n.fnames[i] == "_" {
				continue
			}
			if !ast.IsExported(n.fnames[i]) {
				// an unexported field of another package's struct cannot be set from the test
				if nt, ok := n.t.(*types.Named); ok && nt.Obj().Pkg() != nil && nt.Obj().Pkg() != r.pkg {
					continue
				}
			}
			if f.kind == "unsupported" {
				// left at its zero value; if the counterexample depends on it the replay
				// diverges - and a clause that reads it cannot be confirmed at all
				if f.loc != nil {
					for _, tm := range f.loc.term {
						if len(tm) > 8 && strings.Contains(r.o.goal, tm) {
							r.fail("the refuted clause reads %s.%s, which the replay cannot set up (%s)", target, n.fnames[i], f.why)
						}
					}
				}
				continue
			}
			r.emit(f, target+"."+n.fnames[i])
		}
	case "array":
		for i, e := range n.elems {
			r.emit(e, fmt.Sprintf("%s[%d]", target, i))
		}
	case "bigarray":
		at := n.t.Underlying().(*types.Array)
		esz := sizes.Sizeof(at.Elem())
		for i := int64(0); i < at.Len(); i++ {
			st := r.entry.scratch()
			v := st.loadAt(at.Elem(), n.loc.ref, r.u.m.offAdd(n.loc.off, r.u.m.offConst(i*esz)), nil)
			if val, ok := r.vals[v.S[0]]; ok {
				if lit, ok := r.goLit(at.Elem(), val); ok {
					r.decls = append(r.decls, fmt.Sprintf("%s[%d] = %s", target, i, lit))
				}
			}
		}
	case "iface":
		if r.val(n.loc.term[0]) == "0" {
			r.decls = append(r.decls, fmt.Sprintf("%s = nil", target))
			return
		}
		name, ok := r.stubFor(n.t)
		if !ok {
			r.fail("%s: interface value that cannot be stubbed", target)
			return
		}
		r.decls = append(r.decls, fmt.Sprintf("%s = &%s{}", target, name))
	case "ptr":
		ref, off := r.val(n.loc.term[0]), r.val(n.loc.term[1])
		on, ok := smtInt(off)
		if ref == "0" && ok && on.Sign() == 0 {
			r.decls = append(r.decls, fmt.Sprintf("%s = nil", target))
			return
		}
		if strings.HasPrefix(ref, "(- ") {
			r.fail("%s is an integer-made (raw) or freshly allocated pointer in the model", target)
			return
		}
		if n.pointee == nil || n.pointee.kind == "unsupported" {
			r.fail("%s points to an unsupported object", target)
			return
		}
		key := ref + "/" + off + "/" + n.pointee.t.String()
		if name, ok := r.objs[key]; ok {
			r.decls = append(r.decls, fmt.Sprintf("%s = %s", target, name))
			return
		}
		r.nobj++
		name := fmt.Sprintf("obj%d", r.nobj)
		r.objs[key] = name
		r.decls = append(r.decls, fmt.Sprintf("%s := new(%s)", name, r.typeName(n.pointee.t)))
		r.decls = append(r.decls, fmt.Sprintf("%s = %s", target, name))
		if n.pointee.kind == "scalar" {
			r.emit(n.pointee, "*"+name)
		} else {
			r.emit(n.pointee, name)
		}
	case "slice":
		ref := r.val(n.loc.term[0])
		ln, ok := smtInt(r.val(n.loc.term[2]))
		off, ok2 := smtInt(r.val(n.loc.term[1]))
		if !ok || !ok2 {
			r.fail("no length for %s", target)
			return
		}
		if ref == "0" && off.Sign() == 0 {
			r.decls = append(r.decls, fmt.Sprintf("%s = nil", target))
			return
		}
		if strings.HasPrefix(ref, "(- 1)") {
			r.fail("%s is a raw slice in the model", target)
			return
		}
		if !ln.IsInt64() || ln.Int64() < 0 || ln.Int64() > maxLen(n.t) {
			r.fail("%s has length %s in the model", target, ln)
			return
		}
		st := n.t.Underlying().(*types.Slice)
		r.nobj++
		name := fmt.Sprintf("sl%d", r.nobj)
		r.decls = append(r.decls, fmt.Sprintf("%s := make(%s, %d)", name, r.typeName(n.t), ln.Int64()))
		r.decls = append(r.decls, fmt.Sprintf("%s = %s", target, name))
		for i, e := range n.elems {
			if int64(i) >= ln.Int64() {
				break
			}
			r.emit(e, fmt.Sprintf("%s[%d]", name, i))
		}
		_ = st
	}
}

// expandSlices builds the element nodes of every slice whose length the first model fixes
func (r *replayer) expandSlices(n *rnode, depth int) {
	if n == nil {
		return
	}
	switch n.kind {
	case "slice":
		ln, ok := smtInt(r.val(n.loc.term[2]))
		if !ok || !ln.IsInt64() || ln.Int64() < 0 || ln.Int64() > maxLen(n.t) {
			return
		}
		et := n.t.Underlying().(*types.Slice).Elem()
		esz := sizes.Sizeof(et)
		m := r.u.m
		if len(n.elems) == 0 {
			for i := int64(0); i < ln.Int64(); i++ {
				n.elems = append(n.elems, r.build(et, n.loc.term[0], m.offAdd(n.loc.term[1], m.offConst(i*esz)), nil, depth+1))
			}
		} else {
			for _, e := range n.elems {
				r.expandSlices(e, depth+1)
			}
		}
	case "struct":
		for _, f := range n.fields {
			r.expandSlices(f, depth+1)
		}
	case "array":
		for _, e := range n.elems {
			r.expandSlices(e, depth+1)
		}
	case "ptr":
		r.expandSlices(n.pointee, depth+1)
	}
}

func (r *replayer) sliceLenTerms(n *rnode, out *[]string) {
	if n == nil {
		return
	}
	switch n.kind {
	case "slice":
		*out = append(*out, fmt.Sprintf("%d|%s", maxLen(n.t), n.loc.term[2]))
		for _, e := range n.elems {
			r.sliceLenTerms(e, out)
		}
	case "struct":
		for _, f := range n.fields {
			r.sliceLenTerms(f, out)
		}
	case "array":
		for _, e := range n.elems {
			r.sliceLenTerms(e, out)
		}
	case "ptr":
		r.sliceLenTerms(n.pointee, out)
	}
}

// getValues evaluates the wanted terms in a model of the refuted obligation
func (r *replayer) getValues(j job, dir, fn string, extra []string) bool {
	if len(r.terms) == 0 {
		return true
	}
	q := j.u.query(j.o, append(append([]string{}, j.extra...), extra...), false)
	// declarations of symbols that occur only in the wanted terms
	var extraDecls strings.Builder
	seenSym := map[string]bool{}
	for _, t := range r.terms {
		for _, sym := range symRe.FindAllString(t, -1) {
			if seenSym[sym] {
				continue
			}
			seenSym[sym] = true
			if d, ok := j.u.decls[sym]; ok && !strings.Contains(q, d+"\n") {
				extraDecls.WriteString(d + "\n")
			}
		}
	}
	if i := strings.Index(q, "(set-logic ALL)\n"); i >= 0 && extraDecls.Len() > 0 {
		i += len("(set-logic ALL)\n")
		q = q[:i] + extraDecls.String() + q[i:]
	}
	var sb strings.Builder
	sb.WriteString(q)
	sb.WriteString("(get-value (")
	for _, t := range r.terms {
		sb.WriteString(t + " ")
	}
	sb.WriteString("))\n")
	qf := filepath.Join(dir, fn+".replay.smt2")
	os.WriteFile(qf, []byte(sb.String()), 0644)
	//defer os.Remove(qf)
	for _, sp := range solvers[:2] {
		res, txt, _ := runSolver(context.Background(), sp, qf, 30000, 1)
		if res != "sat" {
			continue
		}
		i := strings.Index(txt, "((")
		if i < 0 {
			continue
		}
		r.vals = map[string]string{}
		for _, pair := range splitSexp(strings.TrimSpace(txt[i:])) {
			kv := splitSexp(pair)
			if len(kv) == 2 {
				r.vals[kv[0]] = kv[1]
			}
		}
		return true
	}
	return false
}

type replayOutcome struct {
	Status  string   `json:"status"` // confirmed | not-confirmed
	How     string   `json:"how"`
	Test    string   `json:"test_file,omitempty"`
	Command string   `json:"command,omitempty"`
	Output  []string `json:"output,omitempty"`
}

func moduleRoot(dir string) string {
	for d := dir; d != "/" && d != "."; d = filepath.Dir(d) {
		if _, err := os.Stat(filepath.Join(d, "go.mod")); err == nil {
			return d
		}
	}
	return dir
}

func replayOnRealCode(eng *engine, id string, j job, replayPath string) bool {
	out := doReplay(eng, id, j, replayPath)
	// record the outcome in the replay file
	if data, err := os.ReadFile(replayPath); err == nil {
		var m map[string]interface{}
		if json.Unmarshal(data, &m) == nil {
			m["replay"] = out
			if nd, err := json.MarshalIndent(m, "", " "); err == nil {
				os.WriteFile(replayPath, nd, 0644)
			}
		}
	}
	return out.Status == "confirmed"
}

func doReplay(eng *engine, id string, j job, replayPath string) (out replayOutcome) {
	out.Status = "not-confirmed"
	defer func() {
		if rec := recover(); rec != nil {
			out.How = fmt.Sprintf("replay generator gave up: %v", rec)
		}
	}()
	u, o := j.u, j.o
	if u.fn == nil || u.lemma != nil {
		out.How = "not a function obligation"
		return
	}
	if u.fn.Parent() != nil {
		out.How = "closure: cannot be called from a test"
		return
	}
	switch o.kind {
	case "inv-entry", "inv-preserved", "decreases", "call-requires", "frame", "assert", "hint", "cover", "unwind", "guarded", "reads":
		out.How = "obligation kind " + o.kind + " is not observable from outside the function (loop invariant, callee precondition, frame): no replay"
		return
	}
	full := strings.Join(o.pc, " ") + o.goal
	if strings.Contains(full, "|M@") {
		out.How = "the counterexample involves raw memory at fixed addresses: cannot be set up in a test process"
		return
	}
	if strings.Contains(o.goal, "|G_") {
		out.How = "the refuted clause speaks about ghost state: not observable on the real code"
		return
	}
	r := &replayer{u: u, o: o, entry: u.entryOld, pkg: u.fn.Pkg.Pkg, imports: map[string]string{}, seenTerm: map[string]bool{}, objs: map[string]string{}}
	if r.entry == nil {
		out.How = "no entry state"
		return
	}
	// parameters
	type pin struct {
		name string
		node *rnode
		v    Val
	}
	var params []pin
	for _, p := range u.fn.Params {
		v, ok := u.entryVals[p]
		if !ok {
			out.How = "parameter without entry value"
			return
		}
		if !exportedOrLocal(p.Type(), r.pkg) {
			out.How = "parameter type not nameable from the test"
			return
		}
		n := &rnode{t: p.Type(), loc: &rloc{t: p.Type(), term: v.S}}
		r.describe(n, v, 0)
		if n.kind == "unsupported" {
			out.How = "parameter " + p.Name() + ": " + n.why
			return
		}
		params = append(params, pin{p.Name(), n, v})
	}
	// package-level variables of this package that the function (or what was inlined) touches
	var globals []pin
	seenG := map[*ssa.Global]bool{}
	fns := []*ssa.Function{u.fn}
	for k := range u.inlined {
		if f := eng.allFuncs[u.fn.Pkg.Pkg.Path()+"."+k]; f != nil {
			fns = append(fns, f)
		}
	}
	for _, f := range fns {
		for _, b := range f.Blocks {
			for _, in := range b.Instrs {
				for _, op := range in.Operands(nil) {
					g, ok := (*op).(*ssa.Global)
					if !ok || seenG[g] || g.Pkg != u.fn.Pkg {
						continue
					}
					seenG[g] = true
					et := g.Type().(*types.Pointer).Elem()
					if _, imm := eng.immutableInit(g); imm {
						continue
					}
					if _, isFunc := et.Underlying().(*types.Signature); isFunc {
						continue
					}
					if _, isIface := et.Underlying().(*types.Interface); isIface {
						continue
					}
					n := r.build(et, fmt.Sprint(eng.globalID(g)), u.m.offConst(0), nil, 0)
					globals = append(globals, pin{g.Name(), n, Val{}})
				}
			}
		}
	}
	sort.Slice(globals, func(a, b int) bool { return globals[a].name < globals[b].name })
	dir := filepath.Dir(replayPath)
	base := strings.TrimSuffix(filepath.Base(replayPath), ".json")
	// models with every slice length bounded; slices nested in slice elements show up only
	// after the outer slice has been expanded, hence the rounds
	var bound, pinned []string
	nlens := -1
	for round := 0; round < 4; round++ {
		var lens []string
		for _, p := range params {
			r.sliceLenTerms(p.node, &lens)
		}
		for _, g := range globals {
			r.sliceLenTerms(g.node, &lens)
		}
		if len(lens) == nlens {
			break
		}
		nlens = len(lens)
		bound = nil
		for i, l := range lens {
			k := strings.Index(l, "|")
			mx := l[:k]
			l = l[k+1:]
			lens[i] = l
			if u.m.intMode {
				bound = append(bound, fmt.Sprintf("(<= %s %s)", l, mx))
			} else {
				bound = append(bound, fmt.Sprintf("(bvule %s (_ bv%s 64))", l, mx))
			}
		}
		if !r.getValues(j, dir, base, append(append([]string{}, bound...), pinned...)) {
			out.How = "no counterexample with all slices at most 4096 scalars / 256 other elements long (or the solver could not produce one in time)"
			return
		}
		pinned = nil
		for _, l := range lens {
			pinned = append(pinned, eq(l, r.val(l)))
		}
		for _, p := range params {
			r.expandSlices(p.node, 0)
		}
		for _, g := range globals {
			r.expandSlices(g.node, 0)
		}
	}
	// predicted results and final contents
	var resTerms [][]string
	for _, rv := range o.results {
		resTerms = append(resTerms, rv.S)
		r.want(rv.S...)
	}
	if !r.getValues(j, dir, base, append(bound, pinned...)) {
		out.How = "solver did not reproduce the counterexample for value extraction"
		return
	}
	// generate the inputs
	var args []string
	recv := ""
	for i, p := range params {
		name := fmt.Sprintf("arg%d", i)
		r.decls = append(r.decls, fmt.Sprintf("var %s %s", name, r.typeName(p.node.t)))
		r.emit(p.node, name)
		if i == 0 && u.fn.Signature.Recv() != nil {
			recv = name
		} else {
			args = append(args, name)
		}
	}
	for _, g := range globals {
		r.emit(g.node, g.name)
	}
	if r.bad != "" {
		out.How = "input not constructible: " + r.bad
		return
	}
	// post-state predictions for the registered leaves
	type pred struct {
		expr string
		t    types.Type
		term string
	}
	var preds []pred
	if o.postHeaps != nil {
		ps := r.entry.scratch()
		ps.heaps = map[string]string{}
		for k, v := range o.postHeaps {
			ps.heaps[k] = v
		}
		r.terms, r.seenTerm = nil, map[string]bool{}
		for _, lf := range r.leaves {
			if lf.loc == nil || lf.loc.ref == "" {
				continue
			}
			pv := ps.scratch().loadAt(lf.t, lf.loc.ref, lf.loc.off, lf.loc.fld)
			preds = append(preds, pred{lf.goExpr, lf.t, pv.S[0]})
			r.want(pv.S[0])
		}
		for _, rs := range resTerms {
			r.want(rs...)
		}
		saved := r.vals
		// pin the inputs so that the predictions belong to the same counterexample
		var pinIn []string
		for t, v := range saved {
			if strings.HasPrefix(v, "#") || v == "true" || v == "false" || isPlainInt(v) || strings.HasPrefix(v, "(- ") {
				pinIn = append(pinIn, eq(t, v))
			}
		}
		sort.Strings(pinIn)
		if !r.getValues(j, dir, base, append(append(bound, pinned...), pinIn...)) {
			out.How = "solver did not reproduce the counterexample for the predicted outputs"
			return
		}
		for k, v := range saved {
			if _, ok := r.vals[k]; !ok {
				r.vals[k] = v
			}
		}
	}
	// the test
	var sb strings.Builder
	sb.WriteString("package " + r.pkg.Name() + "\n\n// Generated by govc: replay of the counterexample to\n//   " + o.name + "\n//   clause: " + strings.ReplaceAll(o.clause, "\n", " ") + "\n\nimport (\n\t\"fmt\"\n\t\"testing\"\n")
	var ips []string
	for p := range r.imports {
		ips = append(ips, p)
	}
	sort.Strings(ips)
	for _, p := range ips {
		sb.WriteString(fmt.Sprintf("\t%s %q\n", r.imports[p], p))
	}
	sb.WriteString(")\n\n")
	for _, sc := range r.stubCode {
		sb.WriteString(sc + "\n")
	}
	sb.WriteString("func TestGovcReplay(t *testing.T) {\n")
	for _, d := range r.decls {
		sb.WriteString("\t" + d + "\n")
	}
	nres := u.fn.Signature.Results().Len()
	call := ""
	fname := u.fn.Name()
	if recv != "" {
		call = recv + "." + fname + "(" + strings.Join(args, ", ") + ")"
	} else {
		call = fname + "(" + strings.Join(args, ", ") + ")"
	}
	sb.WriteString("\tfunc() {\n\t\tdefer func() {\n\t\t\tif r := recover(); r != nil {\n\t\t\t\tfmt.Printf(\"GOVC-PANIC %v\\n\", r)\n\t\t\t}\n\t\t}()\n")
	if nres > 0 {
		var rn []string
		for i := 0; i < nres; i++ {
			rn = append(rn, fmt.Sprintf("res%d", i))
		}
		sb.WriteString("\t\t" + strings.Join(rn, ", ") + " := " + call + "\n")
		for i := 0; i < nres; i++ {
			rt := u.fn.Signature.Results().At(i).Type()
			switch rt.Underlying().(type) {
			case *types.Basic:
				sb.WriteString(fmt.Sprintf("\t\tfmt.Printf(\"GOVC-RES %d %%v\\n\", res%d)\n", i, i))
			case *types.Pointer, *types.Interface, *types.Slice:
				sb.WriteString(fmt.Sprintf("\t\tfmt.Printf(\"GOVC-RES %d nil=%%v\\n\", res%d == nil)\n", i, i))
			default:
				sb.WriteString(fmt.Sprintf("\t\t_ = res%d\n", i))
			}
		}
	} else {
		sb.WriteString("\t\t" + call + "\n")
	}
	sb.WriteString("\t\tfmt.Printf(\"GOVC-RETURNED\\n\")\n\t}()\n")
	for i, p := range preds {
		sb.WriteString(fmt.Sprintf("\tfmt.Printf(\"GOVC-POST %d %%v\\n\", %s)\n", i, p.expr))
	}
	sb.WriteString("}\n")
	testFile := filepath.Join(dir, base+"_replay_test.go")
	os.WriteFile(testFile, []byte(sb.String()), 0644)
	out.Test = testFile
	// run it against the real package through an overlay
	pkgDir := ""
	if p := eng.pkgs[u.fn.Pkg.Pkg.Path()]; p != nil && len(p.GoFiles) > 0 {
		pkgDir = filepath.Dir(p.GoFiles[0])
	}
	if pkgDir == "" {
		out.How = "package directory unknown"
		return
	}
	ov := map[string]map[string]string{"Replace": {filepath.Join(pkgDir, "zz_govc_replay_test.go"): testFile}}
	ovData, _ := json.Marshal(ov)
	ovFile := filepath.Join(dir, base+".overlay.json")
	os.WriteFile(ovFile, ovData, 0644)
	root := moduleRoot(pkgDir)
	rel, _ := filepath.Rel(root, pkgDir)
	ctx, cancel := context.WithTimeout(context.Background(), 120*time.Second)
	defer cancel()
	cmd := exec.CommandContext(ctx, "go", "test", "-overlay", ovFile, "-vet=off", "-count=1", "-timeout", "60s", "-run", "^TestGovcReplay$", "-v", "./"+rel)
	cmd.Dir = root
	cmd.Env = append(os.Environ(), "GOFLAGS=-mod=mod", "GOPROXY=off", "GOSUMDB=off", "GOTOOLCHAIN=local")
	var buf bytes.Buffer
	cmd.Stdout, cmd.Stderr = &buf, &buf
	cmd.Run()
	out.Command = "cd " + root + " && go test -overlay " + ovFile + " -vet=off -count=1 -timeout 60s -run '^TestGovcReplay$' -v ./" + rel
	var lines []string
	got := map[string]string{}
	panicked, returned := "", false
	for _, ln := range strings.Split(buf.String(), "\n") {
		if strings.HasPrefix(ln, "GOVC-") {
			lines = append(lines, ln)
			f := strings.SplitN(ln, " ", 3)
			switch f[0] {
			case "GOVC-PANIC":
				panicked = strings.TrimPrefix(ln, "GOVC-PANIC ")
			case "GOVC-RETURNED":
				returned = true
			case "GOVC-RES", "GOVC-POST":
				if len(f) == 3 {
					got[f[0]+" "+f[1]] = f[2]
				}
			}
		}
	}
	if len(lines) == 0 {
		tail := buf.String()
		if len(tail) > 600 {
			tail = tail[len(tail)-600:]
		}
		out.How = "the replay test did not run to completion: " + strings.ReplaceAll(tail, "\n", " | ")
		return
	}
	out.Output = lines
	safety := map[string]bool{"index": true, "slice-bounds": true, "nil-deref": true, "type-assert": true, "panic": true, "div-zero": true, "make-len": true, "shift": true}
	if safety[o.kind] {
		if panicked != "" {
			out.Status = "confirmed"
			out.How = "the real function panics on the counterexample input: " + panicked
		} else {
			out.How = "the real function did not panic on the counterexample input"
			if hasLoops(u.fn) {
				out.How += " [the function has loops proved by invariants: the counterexample may describe an intermediate state that no execution reaches]"
			}
		}
		return
	}
	if panicked != "" {
		out.How = "the real function panicked on the counterexample input (" + panicked + ") although the refuted clause is a postcondition"
		return
	}
	if !returned {
		out.How = "the real function did not return"
		return
	}
	// compare results and final contents with the model's predictions
	var diffs []string
	ncmp := 0
	for i, rs := range resTerms {
		rt := u.fn.Signature.Results().At(i).Type()
		g, ok := got[fmt.Sprintf("GOVC-RES %d", i)]
		if !ok {
			continue
		}
		switch rt.Underlying().(type) {
		case *types.Basic:
			want := canon(rt, r.val(rs[0]))
			ncmp++
			if normGo(g) != want {
				diffs = append(diffs, fmt.Sprintf("result %d: real %s, model %s", i, g, want))
			}
		case *types.Pointer, *types.Interface, *types.Slice:
			isNil := false
			if rs0 := r.val(rs[0]); rs0 == "0" {
				if len(rs) < 2 {
					isNil = true
				} else if n, ok := smtInt(r.val(rs[1])); ok && n.Sign() == 0 {
					isNil = true
				} else if _, isIface := rt.Underlying().(*types.Interface); isIface {
					isNil = true
				}
			}
			ncmp++
			if g != fmt.Sprintf("nil=%v", isNil) {
				diffs = append(diffs, fmt.Sprintf("result %d: real %s, model nil=%v", i, g, isNil))
			}
		}
	}
	for i, p := range preds {
		g, ok := got[fmt.Sprintf("GOVC-POST %d", i)]
		if !ok {
			continue
		}
		want := canon(p.t, r.val(p.term))
		ncmp++
		if normGo(g) != want {
			diffs = append(diffs, fmt.Sprintf("%s: real %s, model %s", p.expr, g, want))
		}
	}
	if len(diffs) > 0 {
		if len(diffs) > 6 {
			diffs = diffs[:6]
		}
		out.How = "the real function's outputs differ from the model's prediction on this input: " + strings.Join(diffs, "; ")
		if hasLoops(u.fn) {
			out.How += " [the function has loops proved by invariants: the solver's counterexample is a counterexample to the invariant argument and may describe an intermediate state that no execution reaches]"
		} else {
			out.How += " [the engine's model of the code is imprecise here, or the input could not be reproduced exactly]"
		}
		return
	}
	if ncmp == 0 {
		out.How = "nothing observable to compare"
		return
	}
	out.Status = "confirmed"
	out.How = fmt.Sprintf("on the counterexample input the real function returns exactly the results and leaves exactly the object contents the model predicts (%d values compared); for these values the solver showed the clause false", ncmp)
	return
}

// maxLen: how many elements of a slice the replay is prepared to materialise
func maxLen(t types.Type) int64 {
	if st, ok := t.Underlying().(*types.Slice); ok {
		if _, basic := st.Elem().Underlying().(*types.Basic); basic {
			return 4096
		}
	}
	return 256
}

func isPlainInt(v string) bool {
	_, err := strconv.ParseInt(v, 10, 64)
	return err == nil
}

func normGo(s string) string {
	s = strings.TrimSpace(s)
	return s
}
