package main

import (
	"os/exec"
	"encoding/json"
	"fmt"
	"os"
	"path/filepath"
	"regexp"
	"sort"
	"strings"
)

// ---- known findings ---------------------------------------------------------------------

type knownFinding struct {
	Property   string `json:"property"`
	Obligation string `json:"obligation"` // obligation name up to and excluding "@site"
	Except     string `json:"failing_input"` // contract expression over the entry state characterising the failing inputs
	What       string `json:"what"`
	Status     string `json:"status,omitempty"` // "open" | "fixed: ..." (fixed entries suppress nothing)
}

func (k *knownFinding) ID() string { return k.Property + "|" + k.Obligation + "|" + k.Except }

type knownFindings struct {
	Findings []*knownFinding `json:"findings"`
	Fixed    []string        `json:"fixed"`
}

func loadKnownFindings(path string) (*knownFindings, error) {
	kf := &knownFindings{}
	data, err := os.ReadFile(path)
	if err != nil {
		if os.IsNotExist(err) {
			return kf, nil
		}
		return nil, err
	}
	if err := json.Unmarshal(data, kf); err != nil {
		return nil, err
	}
	return kf, nil
}

func baseName(oblName string) string {
	if i := strings.Index(oblName, "@"); i >= 0 {
		return oblName[:i]
	}
	return oblName
}

// attachKnown evaluates, for a freshly created obligation, the exclusion
// constraint of a matching known finding in the unit's entry state.
func (s *state) attachKnown(o *oblig) {
	u := s.u
	if u.kf == nil || s.old == nil || u.ct == nil {
		return
	}
	for _, k := range u.kf.Findings {
		if k.Status != "" && k.Status != "open" {
			continue
		}
		if !hasProp(u.ct.props, k.Property) || k.Obligation != baseName(o.name) {
			continue
		}
		ex, err := parseSexpr(k.Except)
		if err != nil {
			panic(engineErr("known_findings.json: " + err.Error()))
		}
		e := s.old.contractEnv(u.ct, u.fn, s.entryArgs(), nil)
		e.old = s.old
		e.what = "known finding " + k.Obligation
		sc := s.old.scratch()
		o.except = e.with(sc).evalBool(ex)
		o.kfEntry = k
		return
	}
}

// ---- replay files -------------------------------------------------------------------------

type replayFile struct {
	Property   string            `json:"property"`
	Obligation string            `json:"obligation"`
	Kind       string            `json:"kind"`
	Clause     string            `json:"clause"`
	Pos        string            `json:"source"`
	Result     string            `json:"solver_result"`
	Solver     string            `json:"solver"`
	Model      map[string]string `json:"model_entry_values,omitempty"`
	RawModel   string            `json:"solver_output"`
	Query      string            `json:"query_file"`
	Replayed   interface{}       `json:"replay"`
	Note       string            `json:"note"`
}

var sanitizeRe = regexp.MustCompile(`[^A-Za-z0-9_.#-]+`)

func writeReplay(eng *engine, id string, j job, work string) string {
	dir := filepath.Join(outDir(), "replays", id)
	os.MkdirAll(dir, 0755)
	fn := sanitizeRe.ReplaceAllString(j.o.name, "_")
	if len(fn) > 150 {
		fn = fn[:150]
	}
	path := filepath.Join(dir, fn+".json")
	qpath := filepath.Join(dir, fn+".smt2")
	os.WriteFile(qpath, []byte(j.u.query(j.o, j.extra, true)), 0644)
	rf := &replayFile{Property: id, Obligation: j.o.name, Kind: j.o.kind, Clause: j.o.clause, Pos: j.o.pos, Result: j.o.res, Solver: j.o.solver,
		RawModel: j.o.model, Query: qpath, Replayed: "not attempted"}
	rf.Model = modelValues(j.o.model)
	if j.o.res == "sat" {
		for k, v := range entryValues(j, dir, fn) {
			rf.Model[k] = v
		}
	}
	switch j.o.res {
	case "sat":
		rf.Note = "the solver found values under which the obligation's goal is false; see model_entry_values (symbols named after parameters/heaps at function entry)"
	default:
		rf.Note = "no solver could discharge this obligation within the time limit; on the unchanged tree it is discharged, so the change under test broke the proof (no counterexample available: no-failing-input-found)"
	}
	data, _ := json.MarshalIndent(rf, "", " ")
	os.WriteFile(path, data, 0644)
	return path
}

// entryValues asks the solver for the values, in its counterexample, of the entry-state heap
// and memory reads that occur in the obligation (fields of the receiver and the like)
func entryValues(j job, dir, fn string) map[string]string {
	out := map[string]string{}
	var terms []string
	seen := map[string]bool{}
	var walk func(x string)
	walk = func(x string) {
		if len(terms) >= 60 || !(strings.Contains(x, "@0|") || strings.Contains(x, "G_")) {
			return
		}
		p := splitSexp(x)
		if p == nil {
			if strings.HasPrefix(x, "|G_") && strings.HasSuffix(x, "@0|") && !seen[x] {
				seen[x] = true
				terms = append(terms, x)
			}
			return
		}
		if p[0] == "forall" || p[0] == "exists" {
			return
		}
		if p[0] == "select" && len(p) == 3 && !seen[x] && !strings.Contains(x, "!b") {
			q := splitSexp(p[1])
			if q != nil && q[0] == "select" && len(q) == 3 && (strings.HasPrefix(q[1], "|H_") || strings.HasPrefix(q[1], "|E_")) && strings.HasSuffix(q[1], "@0|") && len(x) < 300 {
				seen[x] = true
				terms = append(terms, x)
			}
			if q == nil && strings.HasPrefix(p[1], "|M@0") && len(x) < 200 {
				seen[x] = true
				terms = append(terms, x)
			}
		}
		for _, a := range p[1:] {
			walk(a)
		}
	}
	for _, c := range j.o.pc {
		walk(c)
	}
	walk(j.o.goal)
	if len(terms) == 0 {
		return out
	}
	q := j.u.query(j.o, j.extra, false)
	q += "(get-value (" + strings.Join(terms, " ") + "))\n"
	qf := filepath.Join(dir, fn+".values.smt2")
	os.WriteFile(qf, []byte(q), 0644)
	defer os.Remove(qf)
	for _, sp := range solvers[:2] {
		res, txt, _ := runSolver(contextBackground(), sp, qf, 20000, 1)
		if res != "sat" {
			continue
		}
		// ((term value) (term value) ...)
		i := strings.Index(txt, "((")
		if i < 0 {
			continue
		}
		body := strings.TrimSpace(txt[i:])
		for _, pair := range splitSexp(body) {
			kv := splitSexp(pair)
			if len(kv) == 2 {
				out[prettyRead(kv[0])] = kv[1]
			}
		}
		break
	}
	return out
}

var prettyReadRe = regexp.MustCompile(`^\(select \(select \|H_([A-Za-z0-9_]+)@0\| \|?([A-Za-z0-9_.]+)\.ref![0-9]+\|?\) \|?[A-Za-z0-9_.]+\.off![0-9]+\|?\)$`)

func prettyRead(t string) string {
	if m := prettyReadRe.FindStringSubmatch(t); m != nil {
		return m[2] + " . " + m[1] + " (at entry)"
	}
	return t
}

var defFunRe = regexp.MustCompile(`\(define-fun \|?([^| ()]+)\|? \(\) [^\n]*\n\s*([^\n]*)\)`)

func modelValues(model string) map[string]string {
	out := map[string]string{}
	for _, m := range defFunRe.FindAllStringSubmatch(model, -1) {
		name := m[1]
		if strings.Contains(name, "@") || strings.HasPrefix(name, "hv_") {
			continue
		}
		out[name] = strings.TrimSpace(m[2])
	}
	return out
}

func cmdReplay(args []string) int {
	if len(args) < 1 {
		fmt.Fprintln(os.Stderr, "usage: govc replay <file>")
		return 2
	}
	data, err := os.ReadFile(args[0])
	if err != nil {
		fmt.Fprintln(os.Stderr, err)
		return 2
	}
	var rf replayFile
	if err := json.Unmarshal(data, &rf); err != nil {
		fmt.Fprintln(os.Stderr, err)
		return 2
	}
	fmt.Printf("property %s\nobligation %s (%s)\nclause: %s\nsource: %s\nsolver: %s -> %s\n", rf.Property, rf.Obligation, rf.Kind, rf.Clause, rf.Pos, rf.Solver, rf.Result)
	if m, ok := rf.Replayed.(map[string]interface{}); ok {
		fmt.Printf("replay on the real code: %v - %v\n", m["status"], m["how"])
		if cmdline, ok := m["command"].(string); ok && cmdline != "" {
			fmt.Println("re-running:", cmdline)
			c := exec.Command("bash", "-c", cmdline+" 2>&1 | grep -E '^GOVC-(PANIC|RETURNED|RES)|^(ok|FAIL|---)' | head -20")
			c.Env = append(os.Environ(), "GOFLAGS=-mod=mod", "GOPROXY=off", "GOSUMDB=off", "GOTOOLCHAIN=local")
			outb, _ := c.CombinedOutput()
			fmt.Print(string(outb))
		}
	} else {
		fmt.Printf("replay on the real code: %v\n", rf.Replayed)
	}
	keys := make([]string, 0, len(rf.Model))
	for k := range rf.Model {
		keys = append(keys, k)
	}
	sort.Strings(keys)
	for _, k := range keys {
		fmt.Printf("  %s = %s\n", k, rf.Model[k])
	}
	// re-run the stored query
	if rf.Query != "" {
		for _, sp := range solvers[:2] {
			res, _, secs := runSolver(contextBackground(), sp, rf.Query, 30000, 1)
			fmt.Printf("re-check with %s: %s (%.2fs)  [sat/unknown = obligation not discharged]\n", sp.name, res, secs)
		}
	}
	return 0
}

// ---- evidence --------------------------------------------------------------------------------

type evidence struct {
	PropertyID  string                 `json:"property_id"`
	Tier        string                 `json:"tier"`
	Seed        int                    `json:"seed"`
	Level       string                 `json:"level"`
	Coverage    map[string]interface{} `json:"coverage"`
	Assumptions []string               `json:"assumptions"`
	WallS       float64                `json:"wall_s"`
	Violations  int                    `json:"violations"`
}

func buildEvidence(eng *engine, id, tier string, seed int, units []*unit, jobs, covers []job, known map[string]*knownFinding, skippedDeep, nviol int, wall, loadS, genS, solverS float64) *evidence {
	ev := &evidence{PropertyID: id, Tier: tier, Seed: seed, Level: "proof", WallS: wall, Violations: nviol, Coverage: map[string]interface{}{}}
	nd := 0
	bySolver := map[string]int{}
	byKind := map[string]int{}
	var slow []map[string]interface{}
	var samples []interface{}
	nkf := 0
	for _, j := range jobs {
		byKind[j.o.kind]++
		if j.o.res == "unsat" {
			nd++
			bySolver[j.o.solver]++
		} else if j.o.knownBy != "" {
			// matched a recorded known finding: the obligation was discharged in its
			// restricted form (the finding's failing inputs excluded)
			nd++
			nkf++
			bySolver["restricted to inputs outside a known finding"]++
		}
	}
	sorted := append([]job(nil), jobs...)
	sort.Slice(sorted, func(a, b int) bool { return sorted[a].o.secs > sorted[b].o.secs })
	for i, j := range sorted {
		if i >= 8 {
			break
		}
		slow = append(slow, map[string]interface{}{"obligation": j.o.name, "solver": j.o.solver, "seconds": round2(j.o.secs), "query_bytes": j.o.qsize, "result": j.o.res})
	}
	// samples: a few obligations written out
	seenKind := map[string]bool{}
	for _, j := range jobs {
		if seenKind[j.o.kind] || j.o.goal == "true" {
			continue
		}
		seenKind[j.o.kind] = true
		g := j.o.goal
		if len(g) > 600 {
			g = g[:600] + "…"
		}
		samples = append(samples, map[string]interface{}{"obligation": j.o.name, "kind": j.o.kind, "clause": j.o.clause, "source": j.o.pos, "path_condition_conjuncts": len(j.o.pc), "smt_goal": g, "result": j.o.res, "solver": j.o.solver})
	}
	var fns []unitResult
	notes := map[string]bool{}
	for _, u := range units {
		ur := unitResult{Name: u.name(), Mode: "bv", Paths: u.npaths}
		if u.ct != nil && u.ct.partial {
			ur.Contract = "partial: only the explicit clauses are proved; run-time safety of the body and the preconditions of its callees are assumed"
		}
		if u.m.intMode {
			ur.Mode = "int"
		}
		if u.fn != nil {
			ur.Pos = eng.posStr(u.fn.Pos())
		}
		for _, o := range u.obligs {
			if o.res == "" {
				continue
			}
			ur.Obligations++
			if o.res == "unsat" {
				ur.Discharged++
			}
		}
		for k := range u.inlined {
			ur.Inlined = append(ur.Inlined, k)
		}
		sort.Strings(ur.Inlined)
		for n := range u.notes {
			ur.Notes = append(ur.Notes, n)
			notes[n] = true
		}
		sort.Strings(ur.Notes)
		fns = append(fns, ur)
	}
	nc, ncOK := 0, 0
	for _, c := range covers {
		nc++
		if c.o.res != "unsat" {
			ncOK++
		}
	}
	cv := ev.Coverage
	cv["obligations"] = len(jobs)
	cv["discharged"] = nd
	cv["checker_cmd"] = solverCmdLine()
	cv["trusted_base"] = []string{
		"go/packages + go/ssa (golang.org/x/tools v0.29.0): translation of /repo's Go source (GOOS=linux GOARCH=amd64) to SSA",
		"govc (this VC generator): symbolic execution of SSA, heap model (per-field/per-element-type arrays; type-based partition assumes no cross-type aliasing through unsafe except declared raw memory), contract evaluator",
		"types.SizesFor(gc, amd64) for struct layout",
		"SMT solvers z3 5.1.0, cvc5 1.0.x, z3 4.8.12 (an obligation counts as discharged when any one of them answers unsat)",
	}
	cv["functions_under_contract"] = fns
	cv["obligations_by_kind"] = byKind
	cv["discharged_by_backend"] = bySolver
	cv["solver_cpu_s"] = round2(solverS)
	cv["load_ssa_s"] = round2(loadS)
	cv["vcgen_s"] = round2(genS)
	cv["slowest"] = slow
	cv["samples"] = samples
	cv["vacuity_covers_run"] = nc
	cv["vacuity_covers_satisfiable"] = ncOK
	cv["deep_obligations_skipped_in_this_tier"] = skippedDeep
	cv["returns_unreachable_under_precondition"] = deadReturnsGlobal
	var kl []string
	for _, k := range sortedKeys(known) {
		kl = append(kl, known[k].Obligation+": "+known[k].What)
	}
	cv["known_findings_matched"] = kl
	cv["obligations_discharged_only_outside_known_findings"] = nkf
	if crossInfo != nil && tier == "thorough" {
		cv["cross_check"] = crossInfo
	}
	cv["explanation"] = "every obligation is one contract clause (or automatic safety condition) on one control-flow path of the real function between cut points; all inputs and all loop iteration counts are covered by the quantifier-free/quantified SMT query (loops by inductive invariants, no unrolling unless stated)"
	for n := range notes {
		ev.Assumptions = append(ev.Assumptions, n)
	}
	sort.Strings(ev.Assumptions)
	if ev.Assumptions == nil {
		ev.Assumptions = []string{}
	}
	return ev
}

func round2(x float64) float64 { return float64(int(x*100+0.5)) / 100 }
