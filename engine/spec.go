package main

// Contract files: //@ comments in <pkgdir>/zz_contracts_verif.go
//
// Grammar (line oriented; a line that does not start with a keyword continues
// the previous clause):
//
//   //@ mode bv|int                          package default arithmetic mode
//   //@ rawfield T.f                          field holds a raw (uintptr-made) slice/pointer
//   //@ spec name(a T, b U) R = expr          spec function (macro-expanded)
//   //@ pred name(a T) = expr                 boolean spec function
//   //@ ufun name(a T, b U) R                 uninterpreted function
//   //@ axiom name(x T, y U): expr            instantiated with `use name(args)`
//   //@ lemma name(x T, y U): expr            like axiom, but proved: `by induction on x` / `by auto`, `using ...`
//   //@ func (recv T) Name(params) (results)  contract for a function
//   //@   property C01 C03
//   //@   trusted                              not verified, assumed (listed as assumption)
//   //@   mode int
//   //@   requires expr
//   //@   ensures [label:] expr
//   //@   deep ensures ...
//   //@   modifies loc, loc | T.f | *
//   //@   inline callee, callee
//   //@   loop k (hint) invariant expr | unroll N | decreases expr | modifies ...
//   //@   at <site> assert|use|assume-not-allowed ...
//   //@   partial                              only explicit clauses proved; safety and callee requires assumed (listed)
//   //@   maypanic                             explicit panics allowed (not claimed unreachable)

import (
	"fmt"
	"go/ast"
	"go/parser"
	"go/token"
	"os"
	"path/filepath"
	"regexp"
	"strconv"
	"strings"
)

// sexpr is a contract expression: Go expression syntax extended with ==> and <==>
type sexpr struct {
	op   string // "" (go expression), "==>", "<==>"
	a, b *sexpr
	e    ast.Expr
	tab  map[string]*sexpr // placeholders occurring in e
	src  string
}

var curProp string // the property being checked (clauses may be scoped to properties)

type clause struct {
	scope []string // properties this clause is active for (empty: all)
	kind  string // requires ensures invariant assert use decreases
	label string
	e     *sexpr
	src   string
	deep  bool
	line  int
	exprs []*sexpr // for use/decreases/modifies lists
}

type loopSpec struct {
	hintMismatch bool // the loop header no longer contains the hint (and not by a pure renaming)
	ord      int
	hint     string
	invs     []*clause
	unroll   int
	decr     *clause
	line     int
	ghosts   []*clause // kind "ghost": label = name, e = initial value (evaluated at loop entry)
	steps    []*clause // kind "step": label = name, e = new value (evaluated at every back edge)
	uses     []*clause // lemma/axiom instances assumed at the loop head
	backUses []*clause // proof steps taken at every back edge, before the invariants are checked
	cut      bool // cut point: paths end here after asserting the invariant; the loop is verified once from a generic state
	bodyUses []*clause // proof steps taken when the loop body is entered (loop condition known)
}

type siteSpec struct {
	site    string // e.g. "entry", "return 1", "call mapFn 2", "after call mapFn 2"
	clauses []*clause
	used    bool
}

type funcContract struct {
	pkgPath  string
	key      string // receiver-qualified name: "(*BitmapAllocator).AllocFrame", "EarlyReserveRegion", "setupPoolBitmaps$1"
	header   string
	decl     *ast.FuncDecl // parsed header (names for params/results)
	props    []string
	trusted  bool
	mode     string
	requires []*clause
	ensures  []*clause
	modifies []*clause
	modAll   bool
	hasMod   bool
	rawStores bool
	aliases   map[string]string // locals renamed in the code since the contract was written (from loop hints)
	inline   map[string]bool
	concrete map[string]bool
	inlLoops map[string]map[int]*loopSpec // loop clauses for inlined callees, by callee key
	loops    map[int]*loopSpec
	sites    []*siteSpec
	mayPanic bool
	partial  bool // only the explicit clauses are proved; safety checks and callee preconditions are assumed
	panicsIf *clause
	line     int
	file     string
	opaque   bool
	ghostRes []string
	noframe  bool
	rawParams map[string]bool
	readsMem []*clause // each: exprs[0]=lo, exprs[1]=hi
	guards   []*clause // e = condition, exprs = guarded locations (type-level entries)
	neverReturns bool
}

type specFun struct {
	name    string
	params  []*ast.Field
	pnames  []string
	ptypes  []ast.Expr
	ret     ast.Expr
	body    *sexpr
	kind    string // spec pred ufun axiom lemma
	pkgPath string
	proof   string // for lemma: "induction <var>" | "auto"
	using   []*sexpr
	src     string
	line    int
	props   []string
}

type pkgContracts struct {
	pkgPath  string
	dir      string
	file     string
	mode     string
	rawField map[string]bool
	funcs    map[string]*funcContract
	forder   []string
	specs    map[string]*specFun
	sorder   []string
	seams    map[string]string
	ghosts   map[string]*ghostDecl
	text     string
}

var kwRe = regexp.MustCompile(`^(mode|rawfield|spec|pred|ufun|axiom|lemma|func|property|trusted|requires|ensures|deep|modifies|inline|loop|at|maypanic|panics-unless|seam|opaque|using|by|noframe|raw|noreturn|ghost|reads|guard|concrete|rawtype|rawstores|partial)\b`)

func loadContracts(dir, pkgPath string) (*pkgContracts, error) {
	file := filepath.Join(dir, "zz_contracts_verif.go")
	data, err := os.ReadFile(file)
	pc := &pkgContracts{pkgPath: pkgPath, dir: dir, file: file, rawField: map[string]bool{}, funcs: map[string]*funcContract{}, specs: map[string]*specFun{}, seams: map[string]string{}, ghosts: map[string]*ghostDecl{}, mode: "bv"}
	if err != nil {
		if os.IsNotExist(err) {
			return pc, nil
		}
		return nil, err
	}
	pc.text = string(data)
	if !strings.Contains(pc.text, "//go:build verif") {
		return nil, fmt.Errorf("%s: missing //go:build verif guard", file)
	}
	// gather logical lines
	type lline struct {
		text string
		line int
	}
	var lls []lline
	for i, ln := range strings.Split(pc.text, "\n") {
		t := strings.TrimSpace(ln)
		if !strings.HasPrefix(t, "//@") {
			continue
		}
		t = strings.TrimSpace(t[3:])
		if c := strings.Index(t, " // "); c >= 0 { // trailing comment
			t = strings.TrimSpace(t[:c])
		}
		if t == "" || strings.HasPrefix(t, "//") {
			continue
		}
		if kwRe.MatchString(t) || len(lls) == 0 {
			lls = append(lls, lline{t, i + 1})
		} else {
			lls[len(lls)-1].text += " " + t
		}
	}
	var cur *funcContract
	var curSpec *specFun
	for _, ll := range lls {
		t := ll.text
		kw := kwRe.FindString(t)
		rest := strings.TrimSpace(t[len(kw):])
		fail := func(format string, a ...interface{}) error {
			return fmt.Errorf("%s:%d: %s", file, ll.line, fmt.Sprintf(format, a...))
		}
		switch kw {
		case "mode":
			if cur != nil {
				cur.mode = rest
			} else {
				pc.mode = rest
			}
		case "rawfield":
			pc.rawField[rest] = true
		case "rawtype":
			pc.rawField["@type:"+strings.TrimSpace(rest)] = true
		case "ghost":
			fs := strings.SplitN(rest, " ", 2)
			if len(fs) != 2 {
				return nil, fail("ghost NAME TYPE")
			}
			te, err := parser.ParseExpr(strings.TrimSpace(fs[1]))
			if err != nil {
				return nil, fail("ghost %s: %v", fs[0], err)
			}
			pc.ghosts[fs[0]] = &ghostDecl{name: fs[0], texpr: te, pkgPath: pkgPath}
		case "seam":
			parts := strings.SplitN(rest, "=", 2)
			if len(parts) != 2 {
				return nil, fail("seam NAME = FUNC")
			}
			pc.seams[strings.TrimSpace(parts[0])] = strings.TrimSpace(parts[1])
		case "spec", "pred", "ufun", "axiom", "lemma":
			sf, err := parseSpecFun(kw, rest)
			if err != nil {
				return nil, fail("%v", err)
			}
			sf.pkgPath = pkgPath
			sf.line = ll.line
			if _, dup := pc.specs[sf.name]; dup {
				return nil, fail("duplicate spec %s", sf.name)
			}
			pc.specs[sf.name] = sf
			pc.sorder = append(pc.sorder, sf.name)
			cur = nil
			curSpec = sf
		case "by":
			if curSpec == nil {
				return nil, fail("`by` outside lemma")
			}
			curSpec.proof = rest
		case "using":
			if curSpec == nil {
				return nil, fail("`using` outside lemma")
			}
			for _, p := range splitTop(rest, ';') {
				e, err := parseSexpr(p)
				if err != nil {
					return nil, fail("%v", err)
				}
				curSpec.using = append(curSpec.using, e)
			}
		case "func":
			fc, err := parseFuncHeader(rest)
			if err != nil {
				return nil, fail("%v", err)
			}
			fc.pkgPath = pkgPath
			fc.line = ll.line
			fc.file = file
			if _, dup := pc.funcs[fc.key]; dup {
				return nil, fail("duplicate contract for %s", fc.key)
			}
			pc.funcs[fc.key] = fc
			pc.forder = append(pc.forder, fc.key)
			cur = fc
			curSpec = nil
		default:
			if kw == "property" && curSpec != nil && cur == nil {
				curSpec.props = strings.Fields(rest)
				continue
			}
			if cur == nil {
				return nil, fail("clause outside func: %s", t)
			}
			if err := cur.addClause(kw, rest, ll.line); err != nil {
				return nil, fail("%v", err)
			}
		}
	}
	return pc, nil
}

func (fc *funcContract) addClause(kw, rest string, line int) error {
	deep := false
	if kw == "deep" {
		deep = true
		kw = kwRe.FindString(rest)
		rest = strings.TrimSpace(rest[len(kw):])
	}
	switch kw {
	case "property":
		fc.props = strings.Fields(rest)
	case "trusted":
		fc.trusted = true
	case "rawstores":
		fc.rawStores = true
	case "opaque":
		fc.opaque = true
	case "noframe":
		fc.noframe = true
	case "noreturn":
		fc.neverReturns = true
	case "guard":
		// guard <cond> : T.f, elems(T), ...
		i := strings.LastIndex(rest, " : ")
		if i < 0 {
			return fmt.Errorf("guard <cond> : <locations>")
		}
		ce, err := parseSexpr(rest[:i])
		if err != nil {
			return err
		}
		c := &clause{kind: "guard", e: ce, src: rest, line: line}
		for _, p := range splitTop(rest[i+3:], ',') {
			le, err := parseSexpr(p)
			if err != nil {
				return err
			}
			c.exprs = append(c.exprs, le)
		}
		fc.guards = append(fc.guards, c)
	case "reads":
		// reads mem(lo, hi) [, mem(lo, hi) ...]
		for _, p := range splitTop(rest, ';') {
			p = strings.TrimSpace(p)
			if !strings.HasPrefix(p, "mem(") || !strings.HasSuffix(p, ")") {
				return fmt.Errorf("reads mem(lo, hi); mem(lo, hi)")
			}
			parts := splitTop(p[4:len(p)-1], ',')
			if len(parts) != 2 {
				return fmt.Errorf("reads mem(lo, hi)")
			}
			c := &clause{kind: "reads", src: p, line: line}
			for _, x := range parts {
				e, err := parseSexpr(x)
				if err != nil {
					return err
				}
				c.exprs = append(c.exprs, e)
			}
			fc.readsMem = append(fc.readsMem, c)
		}
	case "raw":
		if fc.rawParams == nil {
			fc.rawParams = map[string]bool{}
		}
		for _, p := range strings.Fields(strings.ReplaceAll(rest, ",", " ")) {
			fc.rawParams[p] = true
		}
	case "maypanic":
		fc.mayPanic = true
	case "partial":
		// explicit clauses only: run-time safety checks and callee preconditions are assumed
		fc.partial = true
		fc.mayPanic = true
	case "panics-unless":
		e, err := parseSexpr(rest)
		if err != nil {
			return err
		}
		fc.panicsIf = &clause{kind: "panics-unless", e: e, src: rest, line: line}
	case "requires", "ensures":
		var scope []string
		if strings.HasPrefix(rest, "[") {
			if k := strings.Index(rest, "]"); k > 0 {
				scope = strings.Fields(strings.ReplaceAll(rest[1:k], ",", " "))
				rest = strings.TrimSpace(rest[k+1:])
			}
		}
		label, body := splitLabel(rest)
		e, err := parseSexpr(body)
		if err != nil {
			return err
		}
		c := &clause{kind: kw, label: label, e: e, src: body, deep: deep, line: line, scope: scope}
		if kw == "requires" {
			fc.requires = append(fc.requires, c)
		} else {
			fc.ensures = append(fc.ensures, c)
		}
	case "modifies":
		fc.hasMod = true
		for _, p := range splitTop(rest, ',') {
			p = strings.TrimSpace(p)
			if p == "*" {
				fc.modAll = true
				continue
			}
			if p == "" || p == "nothing" {
				continue
			}
			e, err := parseSexpr(p)
			if err != nil {
				return err
			}
			fc.modifies = append(fc.modifies, &clause{kind: "modifies", e: e, src: p, line: line})
		}
	case "concrete":
		if fc.concrete == nil {
			fc.concrete = map[string]bool{}
		}
		for _, p := range strings.Split(rest, ",") {
			fc.concrete[strings.TrimSpace(p)] = true
		}
	case "inline":
		if fc.inline == nil {
			fc.inline = map[string]bool{}
		}
		for _, p := range splitTop(rest, ',') {
			fc.inline[strings.TrimSpace(p)] = true
		}
	case "loop":
		// loop k (hint) invariant expr | unroll N | decreases expr
		// loop k (hint) kind body ; the hint may contain balanced parentheses
		// loop Callee.k ... : clauses for loop k of an inlined callee (replace the callee's own)
		loopsOfFc := &fc.loops
		if m := regexp.MustCompile(`^([A-Za-z_(][A-Za-z0-9_*(). $]*?)\.(\d+)`).FindStringSubmatch(rest); m != nil && !regexp.MustCompile(`^\d`).MatchString(rest) {
			if fc.inlLoops == nil {
				fc.inlLoops = map[string]map[int]*loopSpec{}
			}
			callee := strings.TrimSpace(m[1])
			if fc.inlLoops[callee] == nil {
				fc.inlLoops[callee] = map[int]*loopSpec{}
			}
			mm := fc.inlLoops[callee]
			loopsOfFc = &mm
			rest = rest[len(m[1])+1:]
		}
		hint := ""
		if m0 := regexp.MustCompile(`^(\d+)\s*\(`).FindString(rest); m0 != "" {
			d := 0
			end := -1
			for i := len(m0) - 1; i < len(rest); i++ {
				if rest[i] == '(' {
					d++
				} else if rest[i] == ')' {
					d--
					if d == 0 {
						end = i
						break
					}
				}
			}
			if end < 0 {
				return fmt.Errorf("unbalanced hint in loop clause: %s", rest)
			}
			hint = rest[len(m0):end]
			rest = strings.TrimSpace(m0[:len(m0)-1]) + " " + rest[end+1:]
		}
		m := regexp.MustCompile(`^(\d+)\s*()()(invariant|unroll|decreases|ghost|step|use|inbody|backedge|cutpoint)\s*(.*)$`).FindStringSubmatch(rest)
		if m == nil {
			return fmt.Errorf("bad loop clause: %s", rest)
		}
		m[3] = hint
		k, _ := strconv.Atoi(m[1])
		if *loopsOfFc == nil {
			*loopsOfFc = map[int]*loopSpec{}
		}
		ls := (*loopsOfFc)[k]
		if ls == nil {
			ls = &loopSpec{ord: k, line: line}
			(*loopsOfFc)[k] = ls
		}
		if m[3] != "" {
			ls.hint = m[3]
		}
		switch m[4] {
		case "cutpoint":
			ls.cut = true
		case "unroll":
			n, err := strconv.Atoi(strings.TrimSpace(m[5]))
			if err != nil {
				return fmt.Errorf("bad unroll count")
			}
			ls.unroll = n
		case "invariant":
			label, body := splitLabel(m[5])
			e, err := parseSexpr(body)
			if err != nil {
				return err
			}
			ls.invs = append(ls.invs, &clause{kind: "invariant", label: label, e: e, src: body, deep: deep, line: line})
		case "decreases":
			e, err := parseSexpr(m[5])
			if err != nil {
				return err
			}
			ls.decr = &clause{kind: "decreases", e: e, src: m[5], line: line}
		case "ghost", "step":
			j := strings.Index(m[5], "=")
			if j < 0 {
				return fmt.Errorf("loop %s NAME = expr", m[4])
			}
			e, err := parseSexpr(m[5][j+1:])
			if err != nil {
				return err
			}
			c := &clause{kind: m[4], label: strings.TrimSpace(m[5][:j]), e: e, src: m[5], line: line}
			if m[4] == "ghost" {
				ls.ghosts = append(ls.ghosts, c)
			} else {
				ls.steps = append(ls.steps, c)
			}
		case "use", "inbody", "backedge":
			if m[4] != "use" {
				m[5] = strings.TrimSpace(strings.TrimPrefix(strings.TrimSpace(m[5]), "use"))
			}
			c := &clause{kind: "use", src: m[5], line: line}
			for _, p := range splitTop(m[5], ';') {
				e, err := parseSexpr(p)
				if err != nil {
					return err
				}
				c.exprs = append(c.exprs, e)
			}
			if m[4] == "inbody" {
				ls.bodyUses = append(ls.bodyUses, c)
			} else if m[4] == "backedge" {
				ls.backUses = append(ls.backUses, c)
			} else {
				ls.uses = append(ls.uses, c)
			}
		}
	case "at":
		// at <site words> : assert expr | use f(args), g(args) | ghost x = e
		i := strings.Index(rest, ":")
		if i < 0 {
			return fmt.Errorf("at <site>: <clause>")
		}
		site := strings.Join(strings.Fields(rest[:i]), " ")
		body := strings.TrimSpace(rest[i+1:])
		var ss *siteSpec
		for _, x := range fc.sites {
			if x.site == site {
				ss = x
			}
		}
		if ss == nil {
			ss = &siteSpec{site: site}
			fc.sites = append(fc.sites, ss)
		}
		kw2 := strings.Fields(body)[0]
		b2 := strings.TrimSpace(body[len(kw2):])
		switch kw2 {
		case "assert":
			label, bb := splitLabel(b2)
			e, err := parseSexpr(bb)
			if err != nil {
				return err
			}
			ss.clauses = append(ss.clauses, &clause{kind: "assert", label: label, e: e, src: bb, deep: deep, line: line})
		case "use":
			c := &clause{kind: "use", src: b2, line: line}
			for _, p := range splitTop(b2, ';') {
				e, err := parseSexpr(p)
				if err != nil {
					return err
				}
				c.exprs = append(c.exprs, e)
			}
			ss.clauses = append(ss.clauses, c)
		case "inst":
			c := &clause{kind: "inst", src: b2, line: line}
			for _, p := range splitTop(b2, ',') {
				e, err := parseSexpr(p)
				if err != nil {
					return err
				}
				c.exprs = append(c.exprs, e)
			}
			ss.clauses = append(ss.clauses, c)
		case "ghost":
			j := strings.Index(b2, "=")
			e, err := parseSexpr(b2[j+1:])
			if err != nil {
				return err
			}
			ss.clauses = append(ss.clauses, &clause{kind: "ghost", label: strings.TrimSpace(b2[:j]), e: e, src: b2, line: line})
		default:
			return fmt.Errorf("unknown site clause %q", kw2)
		}
	default:
		return fmt.Errorf("unknown clause %q", kw)
	}
	return nil
}

var labelRe = regexp.MustCompile(`^([A-Za-z_][A-Za-z0-9_.\-]*):\s+(.*)$`)

func splitLabel(s string) (string, string) {
	if m := labelRe.FindStringSubmatch(s); m != nil {
		return m[1], m[2]
	}
	return "", s
}

// splitTop splits s at sep occurring at bracket depth 0
func splitTop(s string, sep byte) []string {
	var out []string
	d := 0
	last := 0
	for i := 0; i < len(s); i++ {
		switch s[i] {
		case '(', '[', '{':
			d++
		case ')', ']', '}':
			d--
		case '"':
			for i++; i < len(s) && s[i] != '"'; i++ {
				if s[i] == '\\' {
					i++
				}
			}
		case '\'':
			for i++; i < len(s) && s[i] != '\''; i++ {
				if s[i] == '\\' {
					i++
				}
			}
		default:
			if s[i] == sep && d == 0 {
				out = append(out, s[last:i])
				last = i + 1
			}
		}
	}
	out = append(out, s[last:])
	return out
}

func parseFuncHeader(rest string) (*funcContract, error) {
	// closures: "Outer$1(params) (results)" - '$' is not a Go identifier char
	src := rest
	clo := ""
	// a function of another (standard library) package: "io.Copy(params) (results)"
	ext := ""
	if m := regexp.MustCompile(`^([a-z][A-Za-z0-9_]*)\.([A-Za-z_][A-Za-z0-9_]*)(~callers)?\(`).FindStringSubmatch(src); m != nil {
		ext = m[1] + "."
		src = src[len(m[1])+1:]
	}
	if m := regexp.MustCompile(`^((\([^)]*\)\s*)?[A-Za-z_][A-Za-z0-9_]*)@([A-Za-z_][A-Za-z0-9_]*(\.[A-Za-z_][A-Za-z0-9_]*)?)`).FindStringSubmatch(src); m != nil {
		clo = "@" + m[3]
		src = m[1] + src[len(m[0]):]
	}
	if m := regexp.MustCompile(`([A-Za-z_][A-Za-z0-9_]*)((\$\d+)+)`).FindStringSubmatchIndex(src); m != nil {
		clo = src[m[4]:m[5]]
		src = src[:m[4]] + src[m[5]:]
	}
	// the callers' abstraction of a function: "Name~callers(params) (results)"
	if m := regexp.MustCompile(`^((\([^)]*\)\s*)?[A-Za-z_][A-Za-z0-9_]*)~callers`).FindStringSubmatch(src); m != nil {
		clo = "~callers"
		src = m[1] + src[len(m[0]):]
	}
	f, err := parser.ParseFile(token.NewFileSet(), "hdr.go", "package p\nfunc "+src+"\n", 0)
	if err != nil {
		return nil, fmt.Errorf("bad func header %q: %v", rest, err)
	}
	fd := f.Decls[0].(*ast.FuncDecl)
	key := ext + fd.Name.Name + clo
	if fd.Recv != nil && len(fd.Recv.List) == 1 {
		rt := exprString(fd.Recv.List[0].Type)
		if strings.HasPrefix(rt, "*") {
			key = "(" + rt + ")." + key
		} else {
			key = rt + "." + key
		}
	}
	return &funcContract{key: key, header: rest, decl: fd}, nil
}

func exprString(e ast.Expr) string {
	switch x := e.(type) {
	case *ast.Ident:
		return x.Name
	case *ast.StarExpr:
		return "*" + exprString(x.X)
	case *ast.SelectorExpr:
		return exprString(x.X) + "." + x.Sel.Name
	case *ast.ArrayType:
		if x.Len == nil {
			return "[]" + exprString(x.Elt)
		}
		return "[" + exprString(x.Len) + "]" + exprString(x.Elt)
	case *ast.BasicLit:
		return x.Value
	case *ast.ParenExpr:
		return "(" + exprString(x.X) + ")"
	case *ast.InterfaceType:
		return "interface{}"
	case *ast.Ellipsis:
		return "..." + exprString(x.Elt)
	case *ast.FuncType:
		return "func"
	}
	return fmt.Sprintf("%T", e)
}

func parseSpecFun(kind, rest string) (*specFun, error) {
	// name(params) R = body     |  name(params): body   | name(params) R
	i := strings.Index(rest, "(")
	if i < 0 {
		return nil, fmt.Errorf("spec needs a parameter list")
	}
	name := strings.TrimSpace(rest[:i])
	d := 0
	j := i
	for ; j < len(rest); j++ {
		if rest[j] == '(' {
			d++
		} else if rest[j] == ')' {
			d--
			if d == 0 {
				break
			}
		}
	}
	params := rest[i : j+1]
	tail := strings.TrimSpace(rest[j+1:])
	sf := &specFun{name: name, kind: kind, src: rest}
	ret := ""
	body := ""
	switch kind {
	case "spec":
		k := strings.Index(tail, "=")
		if k < 0 {
			return nil, fmt.Errorf("spec needs = body")
		}
		ret, body = strings.TrimSpace(tail[:k]), strings.TrimSpace(tail[k+1:])
	case "pred":
		if !strings.HasPrefix(tail, "=") {
			return nil, fmt.Errorf("pred needs = body")
		}
		ret, body = "bool", strings.TrimSpace(tail[1:])
	case "ufun":
		ret = tail
	case "axiom", "lemma":
		if !strings.HasPrefix(tail, ":") {
			return nil, fmt.Errorf("%s name(params): body", kind)
		}
		ret, body = "bool", strings.TrimSpace(tail[1:])
	}
	hdr := "package p\nfunc f" + params + " " + ret + "\n"
	f, err := parser.ParseFile(token.NewFileSet(), "spec.go", hdr, 0)
	if err != nil {
		return nil, fmt.Errorf("bad spec header %q: %v", rest, err)
	}
	fd := f.Decls[0].(*ast.FuncDecl)
	for _, fl := range fd.Type.Params.List {
		for _, n := range fl.Names {
			sf.pnames = append(sf.pnames, n.Name)
			sf.ptypes = append(sf.ptypes, fl.Type)
		}
	}
	if fd.Type.Results != nil && len(fd.Type.Results.List) == 1 {
		sf.ret = fd.Type.Results.List[0].Type
	}
	if body != "" {
		e, err := parseSexpr(body)
		if err != nil {
			return nil, err
		}
		sf.body = e
	}
	return sf, nil
}

// ---- expressions with ==> and <==> -------------------------------------------

type sparser struct {
	tab map[string]*sexpr
	n   *int
}

func parseSexpr(src string) (*sexpr, error) {
	n := 0
	p := &sparser{tab: map[string]*sexpr{}, n: &n}
	return p.top(strings.TrimSpace(src))
}

func findTop(s, op string) int {
	d := 0
	for i := 0; i+len(op) <= len(s); i++ {
		switch s[i] {
		case '(', '[', '{':
			d++
		case ')', ']', '}':
			d--
		case '"':
			for i++; i < len(s) && s[i] != '"'; i++ {
				if s[i] == '\\' {
					i++
				}
			}
			continue
		case '\'':
			for i++; i < len(s) && s[i] != '\''; i++ {
				if s[i] == '\\' {
					i++
				}
			}
			continue
		}
		if d == 0 && s[i:i+len(op)] == op {
			if op == "==>" && i > 0 && s[i-1] == '<' {
				continue
			}
			return i
		}
	}
	return -1
}

func (p *sparser) top(s string) (*sexpr, error) {
	s = strings.TrimSpace(s)
	if i := findTop(s, "<==>"); i >= 0 {
		a, err := p.top(s[:i])
		if err != nil {
			return nil, err
		}
		b, err := p.top(s[i+4:])
		if err != nil {
			return nil, err
		}
		return &sexpr{op: "<==>", a: a, b: b, src: s}, nil
	}
	if i := findTop(s, "==>"); i >= 0 {
		a, err := p.top(s[:i])
		if err != nil {
			return nil, err
		}
		b, err := p.top(s[i+3:]) // right associative
		if err != nil {
			return nil, err
		}
		return &sexpr{op: "==>", a: a, b: b, src: s}, nil
	}
	rw, err := p.rewrite(s)
	if err != nil {
		return nil, err
	}
	e, err := parser.ParseExpr(rw)
	if err != nil {
		return nil, fmt.Errorf("cannot parse %q: %v", s, err)
	}
	return &sexpr{e: e, tab: p.tab, src: s}, nil
}

// rewrite replaces every bracketed argument that contains a top-level ==> by
// a placeholder identifier
func (p *sparser) rewrite(s string) (string, error) {
	var sb strings.Builder
	for i := 0; i < len(s); i++ {
		c := s[i]
		if c == '"' || c == '\'' {
			j := i + 1
			for ; j < len(s) && s[j] != c; j++ {
				if s[j] == '\\' {
					j++
				}
			}
			sb.WriteString(s[i : j+1])
			i = j
			continue
		}
		if c != '(' && c != '[' {
			sb.WriteByte(c)
			continue
		}
		closeCh := byte(')')
		if c == '[' {
			closeCh = ']'
		}
		d := 0
		j := i
		for ; j < len(s); j++ {
			if s[j] == '(' || s[j] == '[' || s[j] == '{' {
				d++
			} else if s[j] == ')' || s[j] == ']' || s[j] == '}' {
				d--
				if d == 0 {
					break
				}
			}
		}
		if j >= len(s) || s[j] != closeCh {
			return "", fmt.Errorf("unbalanced brackets in %q", s)
		}
		inner := s[i+1 : j]
		parts := splitTop(inner, ',')
		for k, part := range parts {
			if findTop(part, "==>") >= 0 || findTop(part, "<==>") >= 0 {
				sub, err := p.top(part)
				if err != nil {
					return "", err
				}
				*p.n++
				name := fmt.Sprintf("PH__%d", *p.n)
				p.tab[name] = sub
				parts[k] = name
			} else {
				r, err := p.rewrite(part)
				if err != nil {
					return "", err
				}
				parts[k] = r
			}
		}
		sb.WriteByte(c)
		sb.WriteString(strings.Join(parts, ","))
		sb.WriteByte(closeCh)
		i = j
	}
	return sb.String(), nil
}

func (c *clause) active() bool {
	if len(c.scope) == 0 {
		return true
	}
	for _, p := range c.scope {
		if p == curProp {
			return true
		}
	}
	return false
}
