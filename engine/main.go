package main

import (
	"context"
	"sync"
	"regexp"
	"encoding/json"
	"flag"
	"fmt"
	"os"
	"path/filepath"
	"sort"
	"strconv"
	"strings"
	"time"

	"go/types"

	"golang.org/x/tools/go/ssa"
)

const verifDir = "/verif"

var crossInfo map[string]interface{}

// outDir: where evidence, replay files and scratch queries go; GOVC_OUT redirects them (used
// when a check is run against a scratch copy of the repository, e.g. for seeded changes, so
// that the evidence of the real tree is not overwritten)
func outDir() string {
	if d := os.Getenv("GOVC_OUT"); d != "" {
		return d
	}
	return verifDir
}

func main() {
	if len(os.Args) < 2 {
		fmt.Fprintln(os.Stderr, "usage: govc check -p <id> [-tier quick|thorough] | govc dump <func> | govc replay <file>")
		os.Exit(2)
	}
	switch os.Args[1] {
	case "check":
		os.Exit(cmdCheck(os.Args[2:]))
	case "unchecked":
		cmdUnchecked()
	case "dump":
		cmdDump(os.Args[2:])
	case "replay":
		os.Exit(cmdReplay(os.Args[2:]))
	default:
		fmt.Fprintln(os.Stderr, "unknown command")
		os.Exit(2)
	}
}

// cmdUnchecked lists the call sites at which a contract's preconditions are not proved: calls to
// a function under contract (with requires clauses) from a function that has no contract, or from
// one whose contract is partial (callee preconditions assumed) or trusted.
func cmdUnchecked() {
	eng, err := loadEngine("/repo", []string{"./..."})
	if err != nil {
		fmt.Fprintln(os.Stderr, err)
		os.Exit(2)
	}
	var names []string
	for name := range eng.allFuncs {
		names = append(names, name)
	}
	sort.Strings(names)
	seen := map[string]bool{}
	for _, name := range names {
		f := eng.allFuncs[name]
		if f.Pkg == nil || strings.HasSuffix(eng.posStr(f.Pos()), "_test.go") {
			continue
		}
		fc := eng.contractFor(f)
		how := "no contract"
		if fc != nil {
			switch {
			case fc.partial:
				how = "partial"
			case fc.trusted:
				how = "trusted"
			default:
				continue
			}
		}
		for _, b := range f.Blocks {
			for _, in := range b.Instrs {
				c, ok := in.(ssa.CallInstruction)
				if !ok {
					continue
				}
				callee := c.Common().StaticCallee()
				if callee == nil {
					continue
				}
				cc := eng.contractFor(callee)
				if cc == nil || len(cc.requires) == 0 {
					continue
				}
				var rs []string
				for _, r := range cc.requires {
					rs = append(rs, r.src)
				}
				line := fmt.Sprintf("%s [%s] -> %s  requires %s", name, how, funcKey(callee), strings.Join(rs, " && "))
				if !seen[line] {
					seen[line] = true
					fmt.Println(line)
				}
			}
		}
	}
}

func cmdDump(args []string) {
	eng, err := loadEngine("/repo", []string{"./..."})
	if err != nil {
		fmt.Fprintln(os.Stderr, err)
		os.Exit(2)
	}
	for name, f := range eng.allFuncs {
		if strings.HasSuffix(name, args[0]) {
			fmt.Println("=====", name)
			f.WriteTo(os.Stdout)
			for _, li := range loopsOf(f) {
				fmt.Printf("loop %d header b%d\n", li.ord, li.header.Index)
			}
		}
	}
}

type unitResult struct {
	Name        string   `json:"function"`
	Pos         string   `json:"pos"`
	Mode        string   `json:"arith"`
	Contract    string   `json:"contract,omitempty"`
	Paths       int      `json:"paths"`
	Obligations int      `json:"obligations"`
	Discharged  int      `json:"discharged"`
	Inlined     []string `json:"inlined_callees,omitempty"`
	Notes       []string `json:"notes,omitempty"`
}

func cmdCheck(args []string) int {
	fs := flag.NewFlagSet("check", flag.ExitOnError)
	prop := fs.String("p", "", "property id")
	tier := fs.String("tier", "", "quick|thorough")
	repo := fs.String("repo", "/repo", "repository root")
	verbose := fs.Bool("v", false, "verbose")
	only := fs.String("only", "", "only units whose name contains this")
	keep := fs.Bool("keep", false, "keep query files")
	fs.Parse(args)
	if *tier == "" {
		*tier = os.Getenv("VERIF_TIER")
	}
	if *tier == "" {
		*tier = "quick"
	}
	seed := 1
	if s := os.Getenv("VERIF_SEED"); s != "" {
		if n, err := strconv.Atoi(s); err == nil {
			seed = n
		}
	}
	t0 := time.Now()
	id := *prop
	curProp = id
	evPath := filepath.Join(outDir(), "evidence", id+".json")
	undecided := func(reason string) int {
		fmt.Printf("UNDECIDED property=%s reason=%s\n", id, reason)
		return 2
	}
	eng, err := loadEngine(*repo, []string{"./..."})
	if err != nil {
		return undecided("load: " + strings.ReplaceAll(err.Error(), "\n", " | "))
	}
	loadSecs := time.Since(t0).Seconds()
	kf, err := loadKnownFindings(filepath.Join(verifDir, "known_findings.json"))
	if err != nil {
		return undecided("known_findings.json: " + err.Error())
	}
	// units
	var units []*unit
	var bindErrs []string
	var pkgPaths []string
	for p := range eng.contracts {
		pkgPaths = append(pkgPaths, p)
	}
	sort.Strings(pkgPaths)
	nContracts := 0
	for _, pp := range pkgPaths {
		pc := eng.contracts[pp]
		for _, key := range pc.forder {
			fc := pc.funcs[key]
			if !hasProp(fc.props, id) || fc.trusted {
				continue
			}
			nContracts++
			fn := eng.allFuncs[pp+"."+key]
			if fn == nil {
				bindErrs = append(bindErrs, fmt.Sprintf("%s:%d: contract for %s does not bind to any function", pc.file, fc.line, key))
				continue
			}
			if *only != "" && !strings.Contains(key, *only) {
				continue
			}
			var loopNote string
			if err := eng.checkBinding(fc, fn); err != nil {
				if _, isLoop := err.(loopBindErr); !isLoop {
					bindErrs = append(bindErrs, err.Error())
					continue
				}
				// the loop annotations no longer match the code: verify without
				// them; clauses that needed them will fail by name
				fc.loops = nil
				loopNote = "loop annotations no longer bind and were dropped: " + err.Error()
				fmt.Println("note:", loopNote)
			}
			u := eng.newUnit(fn, fc)
			if loopNote != "" {
				u.notes[loopNote] = true
			}
			units = append(units, u)
		}
	}
	if len(bindErrs) > 0 {
		return undecided("binding failure: " + strings.Join(bindErrs, " ; "))
	}
	var engErrs []string
	for ui := 0; ui < len(units); ui++ {
		u := units[ui]
		func() {
			defer func() {
				if r := recover(); r != nil {
					if le, ok := r.(loopClauseErr); ok && u.retries < 6 {
						// the loop was restructured and its annotations no longer evaluate: they
						// are dropped for this run; clauses that depended on them fail by name
						dropLoopSpec(u.ct, le.spec)
						note := "annotations of a restructured loop no longer evaluate and were dropped: " + le.msg
						fmt.Println("note:", note)
						nu := eng.newUnit(u.fn, u.ct)
						nu.retries = u.retries + 1
						for k := range u.notes {
							nu.notes[k] = true
						}
						nu.notes[note] = true
						units[ui] = nu
						ui--
						return
					}
					if ee, ok := r.(engineErr); ok {
						engErrs = append(engErrs, u.name()+": "+string(ee))
					} else {
						engErrs = append(engErrs, fmt.Sprintf("%s: internal error: %v [%s]", u.name(), r, shortStack()))
					}
				}
			}()
			u.kf = kf
			u.run()
		}()
	}
	lemmaUnits := eng.lemmaUnits(id, &engErrs)
	units = append(units, lemmaUnits...)
	if nContracts == 0 && len(lemmaUnits) == 0 {
		return undecided("no contracts for this property")
	}
	if len(engErrs) > 0 {
		for _, e := range engErrs {
			fmt.Fprintln(os.Stderr, "engine:", e)
		}
		return undecided("engine limit: " + strings.ReplaceAll(strings.Join(engErrs, " ; "), "\n", " "))
	}
	genSecs := time.Since(t0).Seconds() - loadSecs
	// discharge
	work, _ := os.MkdirTemp("", "govc-"+id+"-")
	if !*keep {
		defer os.RemoveAll(work)
	} else {
		keepAll = true
		fmt.Println("queries kept in", work)
	}
	d := &discharger{dir: work, seed: seed, timeoutMs: 10000, retryMs: 30000, par: 5}
	d.deadline = t0.Add(270 * time.Second)
	if *tier == "thorough" {
		d.timeoutMs, d.retryMs = 30000, 120000
		d.deadline = t0.Add(3000 * time.Second)
	}
	var jobs []job
	var skippedDeep int
	for _, u := range units {
		for _, o := range u.obligs {
			if o.deep && *tier != "thorough" {
				skippedDeep++
				continue
			}
			jobs = append(jobs, job{u: u, o: o})
		}
	}
	if *verbose {
		fmt.Printf("%d obligations generated from %d units in %.1fs\n", len(jobs), len(units), genSecs)
	}
	for _, j := range jobs {
		j.u.prepare(j.o)
	}
	// obligations that match a known finding: the plain query gets a short
	// time limit (its failure is expected; the deciding query is the one with
	// the finding's inputs excluded, run below)
	var plain, withKF []job
	for _, j := range jobs {
		if j.o.except != "" {
			withKF = append(withKF, j)
		} else {
			plain = append(plain, j)
		}
	}
	d.all(plain)
	// rescue pass: an obligation that ran out of time (no counterexample) gets one more attempt
	// with much longer limits and less parallelism, so that a loaded machine does not turn a
	// slow proof into an alarm
	var slowJobs []job
	for _, j := range plain {
		if j.o.res == "timeout" || j.o.res == "unknown" {
			slowJobs = append(slowJobs, j)
		}
	}
	if len(slowJobs) > 0 && len(slowJobs) <= 6 {
		dr := &discharger{dir: work, seed: seed + 1, timeoutMs: 2 * d.timeoutMs, retryMs: 5 * d.retryMs / 2, par: 4, deadline: d.deadline.Add(150 * time.Second)}
		for _, j := range slowJobs {
			j.o.firstRes = j.o.res
			j.o.res, j.o.solver = "", ""
		}
		dr.all(slowJobs)
		d.solverT += dr.solverT
		for _, j := range slowJobs {
			if j.o.res == "unsat" {
				j.o.solver += " (rescue pass)"
			}
		}
	}
	// thorough tier: every discharged obligation is re-checked by a second, different solver
	// (a disagreement makes the run UNDECIDED; an obligation only one solver can do is reported)
	var crossOK, crossNo int
	var crossBad []string
	if *tier == "thorough" {
		var mu sync.Mutex
		var wg sync.WaitGroup
		sem := make(chan struct{}, 8)
		for _, j := range plain {
			if j.o.res != "unsat" || j.o.solver == "trivial" || j.o.goal == "true" {
				continue
			}
			wg.Add(1)
			sem <- struct{}{}
			go func(j job) {
				defer wg.Done()
				defer func() { <-sem }()
				var q string
				if j.o.ground {
					q = j.u.queryStage(j.o, j.extra, false, true, 2)
				} else {
					q = j.u.query(j.o, j.extra, false)
				}
				mu.Lock()
				d.n++
				qf := filepath.Join(work, fmt.Sprintf("x%05d.smt2", d.n))
				mu.Unlock()
				os.WriteFile(qf, []byte(q), 0644)
				defer os.Remove(qf)
				var others []solverSpec
				for _, sp := range solvers {
					if !strings.HasPrefix(j.o.solver, sp.name+" ") && j.o.solver != sp.name {
						others = append(others, sp)
					}
				}
				dd := &discharger{seed: seed + 7}
				res, name, _, secs := dd.race(context.Background(), others, qf, 60000)
				mu.Lock()
				d.solverT += secs
				switch res {
				case "unsat":
					crossOK++
					j.o.second = name
				case "sat":
					if j.o.ground {
						crossBad = append(crossBad, j.o.name+" ("+j.o.solver+": unsat, "+name+": sat)")
					} else {
						crossNo++ // a model for a quantified query is not a refutation of the instance-based proof
					}
				default:
					crossNo++
				}
				mu.Unlock()
			}(j)
		}
		wg.Wait()
		fmt.Printf("thorough: %d obligations re-checked by a second solver, %d could only be done by one, %d disagreements\n", crossOK, crossNo, len(crossBad))
	}
	crossInfo = map[string]interface{}{"second_solver_agrees": crossOK, "only_one_solver_succeeded": crossNo, "disagreements": crossBad}
	if len(withKF) > 0 {
		dk := &discharger{dir: work, seed: seed, timeoutMs: 3000, retryMs: 3000, par: 8}
		dk.all(withKF)
		d.solverT += dk.solverT
	}
	// vacuity covers
	var coverJobs []job
	for _, u := range units {
		for _, c := range u.covers {
			coverJobs = append(coverJobs, job{u: u, o: c})
		}
	}
	cd := &discharger{dir: work, seed: seed, timeoutMs: 2000, retryMs: 2000, par: 8}
	cd.allCovers(coverJobs)
	// a return site is unreachable (vacuous contract) only if every path to it is infeasible
	var vacuous []string
	reach := map[string]bool{}
	for _, j := range coverJobs {
		if j.o.res != "unsat" {
			reach[j.o.name] = true
		}
	}
	seenCover := map[string]bool{}
	var deadReturns []string
	unitLive := map[*unit]bool{}
	for _, j := range coverJobs {
		if reach[j.o.name] && !strings.HasSuffix(j.o.name, "#cover.requires") {
			unitLive[j.u] = true
		}
	}
	for _, j := range coverJobs {
		if !reach[j.o.name] && !seenCover[j.o.name] {
			seenCover[j.o.name] = true
			if strings.HasSuffix(j.o.name, "#cover.requires") || !unitLive[j.u] {
				// contradictory precondition, or no return reachable at all
				vacuous = append(vacuous, j.o.name)
			} else {
				// a return that the precondition rules out (defensive code): reported, not an error
				deadReturns = append(deadReturns, j.o.name)
			}
		}
	}
	sort.Strings(deadReturns)
	deadReturnsGlobal = deadReturns
	// known findings: re-check failed obligations with the finding excluded
	var failed []job
	for _, j := range jobs {
		if j.o.res != "unsat" {
			failed = append(failed, j)
		}
	}
	var knownHit = map[string]*knownFinding{}
	var still []job
	if len(failed) > 0 {
		var rejobs []job
		for _, j := range failed {
			if j.o.except != "" {
				o2 := *j.o
				o2.res, o2.model = "", ""
				jj := job{u: j.u, o: &o2, extra: []string{not(j.o.except)}}
				rejobs = append(rejobs, jj)
			} else {
				still = append(still, j)
			}
		}
		d.all(rejobs)
		for i, rj := range rejobs {
			if rj.o.res == "unsat" {
				orig := failedWithExcept(failed)[i]
				orig.o.knownBy = orig.o.kfEntry.What
				knownHit[orig.o.kfEntry.ID()] = orig.o.kfEntry
			} else {
				// a different violation of the same clause
				rj.o.name += " (outside known finding)"
				still = append(still, rj)
			}
		}
	}
	// report
	exit := 0
	for _, k := range sortedKeys(knownHit) {
		f := knownHit[k]
		fmt.Printf("KNOWN-FINDING: property=%s %s [%s]\n", id, f.What, f.Obligation)
	}
	os.MkdirAll(filepath.Join(outDir(), "replays", id), 0755)
	nviol := 0
	replayTries := 0
	replayT0 := time.Now()
	seenViol := map[string]bool{}
	for _, j := range still {
		base := j.o.name
		if seenViol[base] {
			continue
		}
		seenViol[base] = true
		nviol++
		rp := writeReplay(eng, id, j, work)
		replayed := false
		if j.o.res == "sat" && replayTries < 4 && time.Since(replayT0) < 180*time.Second {
			// (a few counterexamples per run are replayed on the real code; the rest keep their model)
			replayTries++
			replayed = tryReplay(eng, id, j, rp)
		}
		if replayed {
			fmt.Printf("VIOLATION property=%s replay=%s\n", id, rp)
		} else {
			fmt.Printf("VIOLATION property=%s replay=%s no-failing-input-found\n", id, rp)
		}
		fmt.Printf("  obligation %s (%s) at %s: %s\n  clause: %s\n", j.o.name, j.o.res, j.o.pos, j.o.kind, j.o.clause)
		exit = 1
	}
	if len(crossBad) > 0 {
		fmt.Printf("UNDECIDED property=%s reason=solvers disagree on %s\n", id, strings.Join(crossBad, ", "))
		if exit == 0 {
			exit = 2
		}
	}
	if len(vacuous) > 0 {
		fmt.Printf("UNDECIDED property=%s reason=vacuous contract (unsatisfiable precondition or unreachable return): %s\n", id, strings.Join(vacuous, ", "))
		if exit == 0 {
			exit = 2
		}
	}
	// evidence
	ev := buildEvidence(eng, id, *tier, seed, units, jobs, coverJobs, knownHit, skippedDeep, nviol, time.Since(t0).Seconds(), loadSecs, genSecs, d.solverT)
	data, _ := json.MarshalIndent(ev, "", " ")
	os.MkdirAll(filepath.Dir(evPath), 0755)
	os.WriteFile(evPath, data, 0644)
	if *verbose || exit != 0 {
		for _, j := range jobs {
			if j.o.res != "unsat" || *verbose {
				fmt.Printf("  %-8s %-70s %s %.2fs\n", j.o.res, j.o.name, j.o.solver, j.o.secs)
				if keepAll && j.o.res != "unsat" {
					fmt.Printf("           query: %s\n", j.o.qfile)
				}
				if j.o.res == "sat" && *verbose {
					mv := modelValues(j.o.model)
					var ks []string
					for k := range mv {
						if !strings.Contains(k, "sk_") && (strings.HasPrefix(k, "ret_") || strings.HasPrefix(k, "mod_") || strings.HasPrefix(k, "t")) && !strings.HasPrefix(k, "true") {
							continue
						}
						ks = append(ks, k)
					}
					sort.Strings(ks)
					var parts []string
					for _, k := range ks {
						parts = append(parts, k+"="+shortVal(mv[k]))
					}
					fmt.Printf("           model: %s\n", strings.Join(parts, " "))
				}
			}
		}
	}
	nd := 0
	for _, j := range jobs {
		if j.o.res == "unsat" {
			nd++
		}
	}
	fmt.Printf("%s %s: %d functions under contract, %d obligations, %d discharged, %d known-finding, %d violations, %d deep skipped; %.1fs (load %.1fs, vcgen %.1fs, solvers %.1fs cpu)\n",
		id, *tier, len(units), len(jobs), nd, len(failed)-len(still), nviol, skippedDeep, time.Since(t0).Seconds(), loadSecs, genSecs, d.solverT)
	return exit
}

func failedWithExcept(failed []job) []job {
	var out []job
	for _, j := range failed {
		if j.o.except != "" {
			out = append(out, j)
		}
	}
	return out
}

func sortedKeys(m map[string]*knownFinding) []string {
	var ks []string
	for k := range m {
		ks = append(ks, k)
	}
	sort.Strings(ks)
	return ks
}

func hasProp(ps []string, id string) bool {
	for _, p := range ps {
		if p == id {
			return true
		}
	}
	return false
}

func (d *discharger) allCovers(jobs []job) {
	// a cover is a satisfiability check of the path condition: goal=false
	d.all(jobs)
}

func (e *engine) newUnit(fn *ssa.Function, fc *funcContract) *unit {
	pc := e.contracts[fn.Pkg.Pkg.Path()]
	md := pc.mode
	if fc.mode != "" {
		md = fc.mode
	}
	return &unit{eng: e, fn: fn, ct: fc, m: mode{intMode: md == "int"}, decls: map[string]string{}, notes: map[string]bool{}, closures: map[string]*closureVal{}, siteOrd: map[string]int{}, inlined: map[string]bool{}, ghostTypes: map[string]types.Type{}, cutHeaders: map[*ssa.BasicBlock]bool{}, cutDone: map[*ssa.BasicBlock]bool{}}
}

// checkBinding: header parameter types and loop clauses must match the code
func (e *engine) checkBinding(fc *funcContract, fn *ssa.Function) error {
	loops := loopsOf(fn)
	for k, ls := range fc.loops {
		if k < 1 || k > len(loops) {
			return loopBindErr(fmt.Sprintf("%s:%d: %s has %d loops, contract names loop %d", fc.file, ls.line, fc.key, len(loops), k))
		}
		if ls.hint != "" && loops[k-1].stmt != nil {
			txt := e.srcText(loops[k-1].stmt)
			if i := strings.Index(txt, "{"); i >= 0 {
				txt = txt[:i]
			}
			if !strings.Contains(strings.Join(strings.Fields(txt), " "), strings.Join(strings.Fields(ls.hint), " ")) {
				// the loop header reads differently now (renamed variable, changed bound): the
				// clauses are still tried against the loop with that ordinal - they either
				// still hold, fail by name, or no longer evaluate (UNDECIDED)
				// the loop header reads differently now. A pure renaming of locals is followed
				// (old name -> new name); anything else means the loop was restructured: the
				// annotations no longer describe it and are dropped (clauses fail by name)
				ren := renamedIdents(ls.hint, txt)
				if ren == nil {
					// restructured header: the clauses are still tried; if they no longer even
					// evaluate the annotations of this loop are dropped (see dropLoopSpec)
					ls.hintMismatch = true
					fmt.Printf("note: %s:%d: loop %d of %s: hint %q does not occur in %q any more\n", fc.file, ls.line, k, fc.key, ls.hint, strings.TrimSpace(txt))
					continue
				}
				fmt.Printf("note: %s:%d: loop %d of %s: hint %q occurs in %q only up to renaming\n", fc.file, ls.line, k, fc.key, ls.hint, strings.TrimSpace(txt))
				for o, n := range ren {
					if fc.aliases == nil {
						fc.aliases = map[string]string{}
					}
					fc.aliases[o] = n
					fmt.Printf("note: %s reads local %q as %q (renamed in the loop header)\n", fc.key, o, n)
				}
			}
		}
	}
	// parameter count
	if fc.decl != nil {
		n := 0
		for _, f := range fc.decl.Type.Params.List {
			if len(f.Names) == 0 {
				n++
			}
			n += len(f.Names)
		}
		want := len(fn.Params)
		if fn.Signature.Recv() != nil {
			want--
		}
		if n != want {
			return fmt.Errorf("%s:%d: contract header of %s has %d parameters, function has %d", fc.file, fc.line, fc.key, n, want)
		}
	}
	return nil
}

var tokRe = regexp.MustCompile(`[A-Za-z_][A-Za-z0-9_]*|\d+|[^\sA-Za-z0-9_]`)
var goKeyword = map[string]bool{"break": true, "case": true, "chan": true, "const": true, "continue": true, "default": true, "defer": true, "else": true, "fallthrough": true, "for": true, "func": true, "go": true, "goto": true, "if": true, "import": true, "interface": true, "map": true, "package": true, "range": true, "return": true, "select": true, "struct": true, "switch": true, "type": true, "var": true, "len": true, "cap": true, "nil": true, "true": true, "false": true}

var identRe = regexp.MustCompile(`^[A-Za-z_][A-Za-z0-9_]*$`)

// renamedIdents: if the loop hint occurs in the loop header up to a consistent renaming of
// identifiers, that renaming
func renamedIdents(hint, header string) map[string]string {
	ht := tokRe.FindAllString(hint, -1)
	tt := tokRe.FindAllString(header, -1)
	for start := 0; start+len(ht) <= len(tt); start++ {
		m := map[string]string{}
		ok := true
		// the window must not cut through a selector expression (x.f): a renamed local is
		// not a field
		if (start > 0 && tt[start-1] == ".") || (start+len(ht) < len(tt) && tt[start+len(ht)] == ".") {
			continue
		}
		for i, h := range ht {
			t := tt[start+i]
			if h == t {
				if prev, seen := m[h]; seen && prev != t {
					ok = false
					break
				}
				continue
			}
			if !identRe.MatchString(h) || !identRe.MatchString(t) || goKeyword[h] || goKeyword[t] {
				ok = false
				break
			}
			if prev, seen := m[h]; seen && prev != t {
				ok = false
				break
			}
			if start+i+1 < len(tt) && tt[start+i+1] == "." {
				ok = false // the candidate new name is the base of a selector, not a plain local
				break
			}
			m[h] = t
		}
		if ok && len(m) > 0 {
			return m
		}
	}
	return nil
}

func dropLoopSpec(fc *funcContract, ls *loopSpec) {
	for k, v := range fc.loops {
		if v == ls {
			delete(fc.loops, k)
		}
	}
	for _, m := range fc.inlLoops {
		for k, v := range m {
			if v == ls {
				delete(m, k)
			}
		}
	}
}

type loopBindErr string

func (e loopBindErr) Error() string { return string(e) }

var deadReturnsGlobal []string
