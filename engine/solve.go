package main

import (
	"bytes"
	"context"
	"fmt"
	"os"
	"os/exec"
	"path/filepath"
	"regexp"
	"strings"
	"sync"
	"time"
)

var symRe = regexp.MustCompile(`\|[^|]+\|`)

type solverSpec struct {
	name string
	args func(timeoutMs int, seed int) []string
}

var solvers = []solverSpec{
	{"z3-new", func(t, seed int) []string {
		return []string{fmt.Sprintf("-T:%d", (t+999)/1000), fmt.Sprintf("smt.random_seed=%d", seed), fmt.Sprintf("sat.random_seed=%d", seed)}
	}},
	{"cvc5", func(t, seed int) []string {
		return []string{fmt.Sprintf("--tlimit=%d", t), fmt.Sprintf("--seed=%d", seed), "--nl-ext-tplanes"}
	}},
	{"z3", func(t, seed int) []string {
		return []string{fmt.Sprintf("-T:%d", (t+999)/1000), fmt.Sprintf("smt.random_seed=%d", seed)}
	}},
}

func solverCmdLine() string {
	return "z3-new -T:<s> smt.random_seed=<seed> q.smt2 | cvc5 --tlimit=<ms> --seed=<seed> --nl-ext-tplanes q.smt2 | z3 -T:<s> q.smt2 (raced per obligation; first unsat wins)"
}

// prepare skolemises the goal and instantiates quantified hypotheses (serial:
// it declares symbols)
func (u *unit) prepare(o *oblig) {
	if o.goalSk != "" {
		return
	}
	var sk []binder
	o.goalSk = u.skolemize(o.goal, &sk, 0)
	pureSk := append([]binder(nil), sk...)
	// stage 2 candidates: neighbours of the skolem constants (rows, indices shifted by one) and
	// the element indices read from typed arrays in the goal
	var extra []binder
	for _, b := range pureSk {
		if b.sort == "Int" {
			extra = append(extra, binder{"(+ " + b.name + " 1)", b.sort}, binder{"(- " + b.name + " 1)", b.sort})
		} else if strings.HasPrefix(b.sort, "(_ BitVec ") {
			var w int
			fmt.Sscanf(b.sort, "(_ BitVec %d)", &w)
			extra = append(extra, binder{fmt.Sprintf("(bvadd %s (_ bv1 %d))", b.name, w), b.sort})
		}
	}
	for _, a := range heapIndexTerms(o.goalSk, 12) {
		extra = append(extra, binder{a, u.m.offSort()})
	}
	// one-step neighbours: field reads in the goal that mention a skolem constant (linked structures)
	if len(pureSk) > 0 {
		extra = append(extra, u.fieldReadsOf(o.goalSk, pureSk, 16)...)
	}
	sk = append(sk, o.cands...)
	sk = append(sk, u.ufApps(o.goalSk, 6)...)
	for i := len(o.pc) - 1; i >= 0 && i >= len(o.pc)-4; i-- {
		if !strings.Contains(o.pc[i], "(forall ") {
			sk = append(sk, u.ufApps(o.pc[i], 4)...)
		}
	}
	// addresses read from raw memory in the goal: candidates for byte-level frame quantifiers
	for _, a := range memIndexTerms(o.goalSk, 24) {
		sk = append(sk, binder{a, "(_ BitVec 64)"})
	}
	sk = dedupBinders(sk, 40)
	sk2 := dedupBinders(append(append([]binder(nil), pureSk...), extra...), 40)
	// relevance filter (E-matching discipline): an instance may not mention
	// applications of spec functions that occur nowhere else in the query
	known := map[string]bool{}
	collectUfApps(o.goalSk, known)
	for _, h := range append(append([]string{}, o.pc...), o.hints...) {
		collectUfApps(h, known)
	}
	seenInst := map[string]bool{}
	for _, h := range append(append([]string{}, o.pc...), o.hints...) {
		if len(pureSk) > 0 {
			// instances at the goal's own skolem constants are always kept
			pi, _ := instances(h, pureSk, 0)
			for _, g := range pi {
				if !seenInst[g] {
					seenInst[g] = true
					o.insts = append(o.insts, g)
				}
			}
		}
		inst, q := instances(h, sk, 0)
		for _, g := range inst {
			if !seenInst[g] && relevantInstance(g, known) {
				seenInst[g] = true
				o.insts = append(o.insts, g)
			}
		}
		if len(extra) > 0 {
			i2, _ := instances(h, sk2, 0)
			for _, g := range i2 {
				if !seenInst[g] && relevantInstance(g, known) && len(o.insts2) < 150 {
					seenInst[g] = true
					o.insts2 = append(o.insts2, g)
				}
			}
		}
		if q || strings.Contains(h, "(forall ") || strings.Contains(h, "(exists ") {
			o.hasQ = true
		}
	}
}

func (u *unit) query(o *oblig, extra []string, withModel bool) string {
	return u.queryStage(o, extra, withModel, false, 1)
}

func (u *unit) queryMode(o *oblig, extra []string, withModel, ground bool) string {
	return u.queryStage(o, extra, withModel, ground, 1)
}

func (u *unit) queryStage(o *oblig, extra []string, withModel, ground bool, stage int) string {
	var body strings.Builder
	for _, p := range append(append([]string{}, o.pc...), o.hints...) {
		if ground && (strings.Contains(p, "(forall ") || strings.Contains(p, "(exists ")) {
			for _, c := range flattenAnd(p, 0) {
				if !strings.Contains(c, "(forall ") && !strings.Contains(c, "(exists ") {
					body.WriteString("(assert " + c + ")\n")
				}
			}
			continue
		}
		body.WriteString("(assert " + p + ")\n")
	}
	allInsts := o.insts
	if stage >= 2 {
		allInsts = append(append([]string(nil), o.insts...), o.insts2...)
	}
	for _, x := range allInsts {
		if ground && (strings.Contains(x, "(forall ") || strings.Contains(x, "(exists ")) {
			continue
		}
		body.WriteString("(assert " + x + ")\n")
	}
	for _, x := range extra {
		body.WriteString("(assert " + x + ")\n")
	}
	goal := o.goal
	if o.goalSk != "" {
		goal = o.goalSk
	}
	body.WriteString("(assert (not " + goal + "))\n")
	if len(u.implAxioms) > 0 && strings.Contains(body.String(), "|impl_") {
		for _, a := range u.implAxioms {
			body.WriteString("(assert " + a + ")\n")
		}
	}
	txt := body.String()
	used := map[string]bool{}
	for _, m := range symRe.FindAllString(txt, -1) {
		used[m] = true
	}
	var sb strings.Builder
	sb.WriteString("(set-option :produce-models true)\n(set-logic ALL)\n")
	for _, q := range u.order {
		if used[q] {
			sb.WriteString(u.decls[q] + "\n")
		}
	}
	sb.WriteString(txt)
	sb.WriteString("(check-sat)\n")
	if withModel {
		sb.WriteString("(get-model)\n")
	}
	return sb.String()
}

func runSolver(ctx context.Context, sp solverSpec, file string, timeoutMs, seed int) (string, string, float64) {
	t0 := time.Now()
	cctx, cancel := context.WithTimeout(ctx, time.Duration(timeoutMs+2000)*time.Millisecond)
	defer cancel()
	cmd := exec.CommandContext(cctx, sp.name, append(sp.args(timeoutMs, seed), file)...)
	var out bytes.Buffer
	cmd.Stdout = &out
	cmd.Stderr = &out
	cmd.Run()
	el := time.Since(t0).Seconds()
	txt := out.String()
	first := strings.TrimSpace(strings.SplitN(txt, "\n", 2)[0])
	switch first {
	case "unsat", "sat", "unknown":
	default:
		if strings.Contains(txt, "timeout") || cctx.Err() != nil {
			first = "timeout"
		} else if first == "" {
			first = "unknown"
		} else {
			first = "error: " + first
		}
	}
	return first, txt, el
}

type discharger struct {
	dir       string
	seed      int
	timeoutMs int
	retryMs   int
	par       int
	mu        sync.Mutex
	n         int
	solverT   float64
	deadline  time.Time
}

// race runs the given solvers in parallel on file; the first unsat wins, a
// sat is kept if nobody says unsat
func (d *discharger) race(ctx context.Context, sps []solverSpec, file string, timeoutMs int) (res, name, out string, secs float64) {
	type r struct {
		res, name, out string
		secs           float64
	}
	ch := make(chan r, len(sps))
	cctx, cancel := context.WithCancel(ctx)
	defer cancel()
	for i, sp := range sps {
		go func(i int, sp solverSpec) {
			rs, txt, sc := runSolver(cctx, sp, file, timeoutMs, d.seed+i)
			ch <- r{rs, sp.name, txt, sc}
		}(i, sp)
	}
	best := r{res: "unknown"}
	t0 := time.Now()
	for i := 0; i < len(sps); i++ {
		x := <-ch
		if x.res == "unsat" {
			return x.res, x.name, x.out, time.Since(t0).Seconds()
		}
		if x.res == "sat" && best.res != "sat" {
			best = x
		} else if best.res == "unknown" && best.name == "" {
			best = x
		} else if x.res == "timeout" && best.res != "sat" {
			best.res = "timeout"
		}
	}
	return best.res, best.name, best.out, time.Since(t0).Seconds()
}

// discharge one obligation: ground query first (quantified hypotheses
// replaced by instances), then the full query; solvers raced in parallel
func (d *discharger) one(u *unit, o *oblig, extra []string) {
	d.mu.Lock()
	d.n++
	id := d.n
	d.mu.Unlock()
	file := filepath.Join(d.dir, fmt.Sprintf("q%05d.smt2", id))
	o.qfile = file
	ctx := context.Background()
	done := func() {
		d.mu.Lock()
		d.solverT += o.secs
		d.mu.Unlock()
	}
	q := u.query(o, extra, false)
	o.qsize = len(q)
	os.WriteFile(file, []byte(q), 0644)
	var res, name string
	if o.hasQ {
		// two tracks at once: the quantifier-free query with the hypotheses instantiated on the
		// ground (stage 1, then the wider stage 2), and the full quantified query; the first
		// `unsat` wins. (Some obligations are only provable on the ground, others only with the
		// solver's own instantiation: running the tracks one after the other cost 10-20 s on the
		// latter for nothing.)
		type tr struct {
			res, name string
			ground    bool
			qsize     int
		}
		cctx, cancel := context.WithCancel(ctx)
		ch := make(chan tr, 2)
		t0 := time.Now()
		go func() {
			gq := u.queryMode(o, extra, false, true)
			gf := filepath.Join(d.dir, fmt.Sprintf("q%05d.ground.smt2", id))
			os.WriteFile(gf, []byte(gq), 0644)
			r, n, _, _ := d.race(cctx, solvers[:2], gf, d.timeoutMs)
			removeQ(gf)
			if r == "unsat" || len(o.insts2) == 0 || cctx.Err() != nil {
				ch <- tr{r, n, true, len(gq)}
				return
			}
			gq2 := u.queryStage(o, extra, false, true, 2)
			gf2 := filepath.Join(d.dir, fmt.Sprintf("q%05d.ground2.smt2", id))
			os.WriteFile(gf2, []byte(gq2), 0644)
			r, n, _, _ = d.race(cctx, solvers[:2], gf2, d.timeoutMs)
			removeQ(gf2)
			ch <- tr{r, n, true, len(gq2)}
		}()
		go func() {
			r, n, _, _ := d.race(cctx, solvers, file, d.retryMs)
			ch <- tr{r, n, false, len(q)}
		}()
		var full tr
		got := 0
		for got < 2 {
			x := <-ch
			got++
			if x.res == "unsat" {
				res, name = "unsat", x.name
				o.ground, o.qsize = x.ground, x.qsize
				break
			}
			if !x.ground {
				full = x
			}
		}
		cancel()
		o.secs += time.Since(t0).Seconds()
		if res != "unsat" {
			// a model of the instantiated query is not a refutation; the full query's verdict stands
			res, name = full.res, full.name
			if res == "" {
				res = "unknown"
			}
		}
	} else {
		var secs float64
		res, name, _, secs = d.race(ctx, solvers, file, d.retryMs)
		o.secs += secs
	}
	o.res, o.solver = res, name
	if res == "sat" {
		mf := filepath.Join(d.dir, fmt.Sprintf("q%05d.model.smt2", id))
		os.WriteFile(mf, []byte(u.query(o, extra, true)), 0644)
		for _, sp := range solvers {
			if sp.name == o.solver {
				_, txt, _ := runSolver(ctx, sp, mf, d.retryMs, d.seed)
				o.model = txt
			}
		}
	}
	if res == "unsat" {
		removeQ(file)
	}
	done()
}

type job struct {
	u     *unit
	o     *oblig
	extra []string
}

func (d *discharger) all(jobs []job) {
	var wg sync.WaitGroup
	ch := make(chan job)
	for i := 0; i < d.par; i++ {
		wg.Add(1)
		go func() {
			defer wg.Done()
			for j := range ch {
				if j.o.goal == "true" {
					j.o.res, j.o.solver = "unsat", "trivial"
					continue
				}
				if !d.deadline.IsZero() && time.Now().After(d.deadline) {
					j.o.res, j.o.solver = "timeout", "time budget of this tier exhausted"
					continue
				}
				d.one(j.u, j.o, j.extra)
			}
		}()
	}
	for _, j := range jobs {
		ch <- j
	}
	close(ch)
	wg.Wait()
}

var keepAll bool

func removeQ(f string) {
	if !keepAll {
		os.Remove(f)
	}
}
