package console

import (
	"testing"

	"github.com/ProjectSerenity/firefly/kernel/device/video/console/font"
)

func TestZZScrollPadding(t *testing.T) {
	f := &font.Font{GlyphWidth: 8, GlyphHeight: 2, BytesPerRow: 1, Data: make([]byte, 256*2)}
	cons := NewVesaFbConsole(8, 6, 8, 12, nil, 0) // width 8, pitch 12: 4 padding bytes per row
	cons.fb = make([]byte, 6*12)
	cons.SetFont(f)
	for r := 0; r < 6; r++ {
		for b := 8; b < 12; b++ {
			cons.fb[r*12+b] = byte(0xA0 + r)
		}
	}
	cons.Scroll(ScrollDirUp, 1)
	for r := 0; r < 6; r++ {
		for b := 8; b < 12; b++ {
			if got := cons.fb[r*12+b]; got != byte(0xA0+r) {
				t.Fatalf("padding byte (row %d, byte %d) changed from %#x to %#x", r, b, 0xA0+r, got)
			}
		}
	}
}
