package aml

// Replay of the counterexample to (*Parser).parseFieldElements#assert.window (C12) on the real code:
// Field (REG0, ...) { Connection (Buffer (1) { one byte }) } whose buffer declares 255 bytes.
// Before 3818f33 the byte list was cut out of the table with the declared length: the tree then
// referred to (and PrettyPrint dumped) 254 bytes past the end of the table.
// Run: cd /repo/kernel && go test -vet=off -overlay <overlay.json mapping
//      device/acpi/aml/zz_replay_connbuf_test.go to this file> -run TestReplayConnBuf ./device/acpi/aml/

import (
	"bytes"
	"testing"
	"unsafe"

	"github.com/ProjectSerenity/firefly/kernel/device/acpi/table"
)

// --- tiny AML assembler -------------------------------------------------

func rplCat(parts ...[]byte) []byte {
	var out []byte
	for _, p := range parts {
		out = append(out, p...)
	}
	return out
}

// rplPkg prefixes body with a PkgLength that covers itself and the body.
func rplPkg(body []byte) []byte {
	n := len(body)
	switch {
	case n+1 < 0x40:
		return append([]byte{byte(n + 1)}, body...)
	case n+2 < 0x1000:
		l := n + 2
		return append([]byte{0x40 | byte(l&0xf), byte(l >> 4)}, body...)
	default:
		l := n + 3
		return append([]byte{0x80 | byte(l&0xf), byte(l >> 4), byte(l >> 12)}, body...)
	}
}

func rplScope(name string, body ...[]byte) []byte {
	return append([]byte{0x10}, rplPkg(rplCat(append([][]byte{[]byte(name)}, body...)...))...)
}

func rplDevice(name string, body ...[]byte) []byte {
	return append([]byte{0x5b, 0x82}, rplPkg(rplCat(append([][]byte{[]byte(name)}, body...)...))...)
}

func rplMethod(name string, flags byte, body ...[]byte) []byte {
	return append([]byte{0x14}, rplPkg(rplCat(append([][]byte{[]byte(name), {flags}}, body...)...))...)
}

func rplName(name string, val []byte) []byte {
	return rplCat([]byte{0x08}, []byte(name), val)
}

func rplByte(v byte) []byte { return []byte{0x0a, v} }

func rplTable(payload []byte) *table.SDTHeader {
	headerLen := unsafe.Sizeof(table.SDTHeader{})
	stream := make([]byte, int(headerLen)+len(payload))
	copy(stream[headerLen:], payload)

	header := (*table.SDTHeader)(unsafe.Pointer(&stream[0]))
	header.Signature = [4]byte{'D', 'S', 'D', 'T'}
	header.Length = uint32(len(stream))
	header.Revision = 2
	return header
}

func rplParse(t *testing.T, tables ...[]byte) *ObjectTree {
	tree := NewObjectTree()
	tree.CreateDefaultScopes(42)
	var errBuf bytes.Buffer
	p := NewParser(&errBuf, tree)
	for i, payload := range tables {
		if err := p.ParseAML(uint8(i), "DSDT", rplTable(payload)); err != nil {
			t.Fatalf("table %d: ParseAML failed on well-formed AML: %v\n%s", i, err, errBuf.String())
		}
	}
	return tree
}

func rplDump(tree *ObjectTree) string {
	var buf bytes.Buffer
	tree.PrettyPrint(&buf)
	return buf.String()
}


func TestReplayConnBuf(t *testing.T) {
	// Field (REG0, ByteAcc) { Connection (Buffer (...) { <declared length 0xff, no data> }) }
	conn := rplCat([]byte{0x02, 0x11}, rplPkg([]byte{0x0a, 0xff, 0x00}))
	prog := append([]byte{0x5b, 0x81}, rplPkg(rplCat([]byte("REG0"), []byte{0x01}, conn))...)
	hdr := rplTable(prog)
	tableEnd := uintptr(unsafe.Pointer(hdr)) + uintptr(hdr.Length)
	tree := NewObjectTree()
	tree.CreateDefaultScopes(42)
	var errBuf bytes.Buffer
	p := NewParser(&errBuf, tree)
	err := p.ParseAML(0, "DSDT", hdr)
	t.Logf("err=%v %s", err, errBuf.String())
	for _, o := range tree.objPool {
		if o.opcode == pOpIntFreedObject { continue }
		if b, ok := o.value.([]byte); ok && len(b) > 0 {
			start := uintptr(unsafe.Pointer(&b[:1][0]))
			if start+uintptr(len(b)) > tableEnd {
				t.Errorf("object %d (%s): value of %d bytes ends %d bytes past the end of the table", o.index, pOpcodeName(o.opcode), len(b), start+uintptr(len(b))-tableEnd)
			}
		}
	}
}
