package aml

// Replay of the counterexample to (*Parser).parseNameString#ensures.span (C11) on the real code:
//   Scope (\) { Name (FOO0, 0x11) }
// The scope's NameString is RootChar NullName (5c 00). Before b9b7d28 parseNameString returned the
// empty name for it (everything read was dropped when the name path was the NullName), the Scope
// directive could not be resolved and this well-formed table was rejected.
// Run: cd /repo/kernel && go test -vet=off -overlay <overlay.json mapping
//      device/acpi/aml/zz_replay_rootscope_test.go to this file> -run TestReplayRootScope ./device/acpi/aml/

import (
	"bytes"
	"testing"
	"unsafe"

	"github.com/ProjectSerenity/firefly/kernel/device/acpi/table"
)

// --- tiny AML assembler -------------------------------------------------

func rplCat(parts ...[]byte) []byte {
	var out []byte
	for _, p := range parts {
		out = append(out, p...)
	}
	return out
}

// rplPkg prefixes body with a PkgLength that covers itself and the body.
func rplPkg(body []byte) []byte {
	n := len(body)
	switch {
	case n+1 < 0x40:
		return append([]byte{byte(n + 1)}, body...)
	case n+2 < 0x1000:
		l := n + 2
		return append([]byte{0x40 | byte(l&0xf), byte(l >> 4)}, body...)
	default:
		l := n + 3
		return append([]byte{0x80 | byte(l&0xf), byte(l >> 4), byte(l >> 12)}, body...)
	}
}

func rplScope(name string, body ...[]byte) []byte {
	return append([]byte{0x10}, rplPkg(rplCat(append([][]byte{[]byte(name)}, body...)...))...)
}

func rplDevice(name string, body ...[]byte) []byte {
	return append([]byte{0x5b, 0x82}, rplPkg(rplCat(append([][]byte{[]byte(name)}, body...)...))...)
}

func rplMethod(name string, flags byte, body ...[]byte) []byte {
	return append([]byte{0x14}, rplPkg(rplCat(append([][]byte{[]byte(name), {flags}}, body...)...))...)
}

func rplName(name string, val []byte) []byte {
	return rplCat([]byte{0x08}, []byte(name), val)
}

func rplByte(v byte) []byte { return []byte{0x0a, v} }

func rplTable(payload []byte) *table.SDTHeader {
	headerLen := unsafe.Sizeof(table.SDTHeader{})
	stream := make([]byte, int(headerLen)+len(payload))
	copy(stream[headerLen:], payload)

	header := (*table.SDTHeader)(unsafe.Pointer(&stream[0]))
	header.Signature = [4]byte{'D', 'S', 'D', 'T'}
	header.Length = uint32(len(stream))
	header.Revision = 2
	return header
}

func rplParse(t *testing.T, tables ...[]byte) *ObjectTree {
	tree := NewObjectTree()
	tree.CreateDefaultScopes(42)
	var errBuf bytes.Buffer
	p := NewParser(&errBuf, tree)
	for i, payload := range tables {
		if err := p.ParseAML(uint8(i), "DSDT", rplTable(payload)); err != nil {
			t.Fatalf("table %d: ParseAML failed on well-formed AML: %v\n%s", i, err, errBuf.String())
		}
	}
	return tree
}

func rplDump(tree *ObjectTree) string {
	var buf bytes.Buffer
	tree.PrettyPrint(&buf)
	return buf.String()
}


func TestReplayRootScope(t *testing.T) {
	// Scope (\) { Name (FOO0, 0x11) }   -- NameString of the scope: RootChar NullName = 5c 00
	prog := append([]byte{0x10}, rplPkg(rplCat([]byte{0x5c, 0x00}, rplName("FOO0", rplByte(0x11))))...)
	tree := NewObjectTree()
	tree.CreateDefaultScopes(42)
	var errBuf bytes.Buffer
	p := NewParser(&errBuf, tree)
	err := p.ParseAML(0, "DSDT", rplTable(prog))
	t.Logf("err=%v %s\n%s", err, errBuf.String(), rplDump(tree))
	if err != nil { t.Fatalf("well-formed table rejected") }
	if idx := tree.Find(0, []byte("\\FOO0")); idx == InvalidIndex {
		t.Errorf("\\FOO0 not found")
	}
}
