package aml

// Replay of the counterexample to (*Parser).attachSiblingsAsArgs#assert.owner (C12/C11) on the real
// code: a load-time method invocation that is the value of a Name and the last thing in its scope.
// Its arguments are siblings of the Name (children of the scope), but before 0731619 they were
// detached with detach(Name, arg), which repairs only Name's child links: the scope's lastArgIndex
// kept pointing at the last argument after it had become a child of the MethodCall, so the tree was
// no longer well formed and an object a later table adds to the same scope was appended to the
// call's argument list (Find no longer reaches it).
// Run: cd /repo/kernel && go test -vet=off -overlay <overlay.json mapping
//      device/acpi/aml/zz_replay_attach_test.go to this file> -run TestReplayAttachOwner ./device/acpi/aml/

import (
	"bytes"
	"testing"
	"unsafe"

	"github.com/ProjectSerenity/firefly/kernel/device/acpi/table"
)

// --- tiny AML assembler -------------------------------------------------

func rplCat(parts ...[]byte) []byte {
	var out []byte
	for _, p := range parts {
		out = append(out, p...)
	}
	return out
}

// rplPkg prefixes body with a PkgLength that covers itself and the body.
func rplPkg(body []byte) []byte {
	n := len(body)
	switch {
	case n+1 < 0x40:
		return append([]byte{byte(n + 1)}, body...)
	case n+2 < 0x1000:
		l := n + 2
		return append([]byte{0x40 | byte(l&0xf), byte(l >> 4)}, body...)
	default:
		l := n + 3
		return append([]byte{0x80 | byte(l&0xf), byte(l >> 4), byte(l >> 12)}, body...)
	}
}

func rplScope(name string, body ...[]byte) []byte {
	return append([]byte{0x10}, rplPkg(rplCat(append([][]byte{[]byte(name)}, body...)...))...)
}

func rplDevice(name string, body ...[]byte) []byte {
	return append([]byte{0x5b, 0x82}, rplPkg(rplCat(append([][]byte{[]byte(name)}, body...)...))...)
}

func rplMethod(name string, flags byte, body ...[]byte) []byte {
	return append([]byte{0x14}, rplPkg(rplCat(append([][]byte{[]byte(name), {flags}}, body...)...))...)
}

func rplName(name string, val []byte) []byte {
	return rplCat([]byte{0x08}, []byte(name), val)
}

func rplByte(v byte) []byte { return []byte{0x0a, v} }

func rplTable(payload []byte) *table.SDTHeader {
	headerLen := unsafe.Sizeof(table.SDTHeader{})
	stream := make([]byte, int(headerLen)+len(payload))
	copy(stream[headerLen:], payload)

	header := (*table.SDTHeader)(unsafe.Pointer(&stream[0]))
	header.Signature = [4]byte{'D', 'S', 'D', 'T'}
	header.Length = uint32(len(stream))
	header.Revision = 2
	return header
}

func rplParse(t *testing.T, tables ...[]byte) *ObjectTree {
	tree := NewObjectTree()
	tree.CreateDefaultScopes(42)
	var errBuf bytes.Buffer
	p := NewParser(&errBuf, tree)
	for i, payload := range tables {
		if err := p.ParseAML(uint8(i), "DSDT", rplTable(payload)); err != nil {
			t.Fatalf("table %d: ParseAML failed on well-formed AML: %v\n%s", i, err, errBuf.String())
		}
	}
	return tree
}

func rplDump(tree *ObjectTree) string {
	var buf bytes.Buffer
	tree.PrettyPrint(&buf)
	return buf.String()
}


func TestReplayAttachOwner(t *testing.T) {
	prog := rplScope("\\_SB_",
		rplMethod("MTH0", 2, []byte{0xa4, 0x68}),
		rplName("VAL0", rplCat([]byte("MTH0"), rplByte(0x11), rplByte(0x22))),
	)
	prog2 := rplScope("\\_SB_",
		rplName("VAL9", rplByte(0x66)),
	)
	tree := rplParse(t, prog)
	// well-formedness: every child chain is consistent
	for i, o := range tree.objPool {
		if o.opcode == pOpIntFreedObject { continue }
		if o.lastArgIndex != InvalidIndex {
			l := tree.ObjectAt(o.lastArgIndex)
			if l == nil || l.parentIndex != uint32(i) {
				t.Errorf("object %d (%s): lastArgIndex %d has parent %d", i, pOpcodeName(o.opcode), o.lastArgIndex, l.parentIndex)
			}
		}
	}
	t.Log(rplDump(tree))
	tree2 := rplParse(t, prog, prog2)
	if idx := tree2.Find(0, []byte("\\_SB_VAL9")); idx == InvalidIndex {
		t.Errorf("VAL9 of the second table not found\n%s", rplDump(tree2))
	}
}
