package pmm

// Replay of the counterexample to setupPoolBitmaps$2#ensures.sized (C01/C03) on the real code:
// an available region with 64*m+1 whole frames gets a bitmap of m words, one bit short, so the
// pool's last frame has no bit: freeing (or reserving) it indexes past the bitmap and panics.
// Run: cd /repo/kernel && go test -vet=off -overlay <overlay.json mapping
//      mm/pmm/zz_replay_sizing_test.go to this file> -run TestReplayBitmapSizing ./mm/pmm/

import (
	"encoding/binary"
	"testing"
	"unsafe"

	"github.com/ProjectSerenity/firefly/kernel"
	"github.com/ProjectSerenity/firefly/kernel/mm"
	"github.com/ProjectSerenity/firefly/kernel/mm/vmm"
	"github.com/ProjectSerenity/firefly/kernel/multiboot"
)

func TestReplayBitmapSizing(t *testing.T) {
	defer func() {
		mapFn = vmm.Map
		reserveRegionFn = vmm.EarlyReserveRegion
	}()
	// a multiboot info block with one memory-map tag holding one available entry: 65 whole frames
	info := make([]byte, 8+16+24+8)
	binary.LittleEndian.PutUint32(info[0:], uint32(len(info)))
	binary.LittleEndian.PutUint32(info[8:], 6)      // tag type: memory map
	binary.LittleEndian.PutUint32(info[12:], 16+24) // tag size
	binary.LittleEndian.PutUint32(info[16:], 24)    // entry size
	binary.LittleEndian.PutUint64(info[24:], 0x100000)
	binary.LittleEndian.PutUint64(info[32:], 65*4096)
	binary.LittleEndian.PutUint32(info[40:], 1) // available
	// end tag (type 0, size 8) is already zero apart from the size
	binary.LittleEndian.PutUint32(info[52:], 8)
	multiboot.SetInfoPtr(uintptr(unsafe.Pointer(&info[0])))

	var alloc BitmapAllocator
	physMem := make([]byte, 2*mm.PageSize)
	mapFn = func(mm.Page, mm.Frame, vmm.PageTableEntryFlag) *kernel.Error { return nil }
	reserveRegionFn = func(uintptr) (uintptr, *kernel.Error) { return uintptr(unsafe.Pointer(&physMem[0])), nil }
	bootMemAllocator.allocCount, bootMemAllocator.lastAllocFrame = 0, 0
	if err := alloc.setupPoolBitmaps(); err != nil {
		t.Fatal(err)
	}
	p := alloc.pools[0]
	frames := uint64(p.endFrame-p.startFrame) + 1
	t.Logf("pool: frames %d..%d (%d frames), freeCount %d, bitmap words %d (= %d bits)", p.startFrame, p.endFrame, frames, p.freeCount, len(p.freeBitmap), 64*len(p.freeBitmap))
	if uint64(len(p.freeBitmap))*64 < frames {
		t.Errorf("REPLAY-CONFIRMED: bitmap has %d bits for %d frames", 64*len(p.freeBitmap), frames)
	}
	func() {
		defer func() {
			if r := recover(); r != nil {
				t.Errorf("REPLAY-CONFIRMED: FreeFrame(last frame of the pool) panicked: %v", r)
			}
		}()
		alloc.FreeFrame(p.endFrame)
	}()
}
