#!/usr/bin/env python3
"""Regenerates MANIFEST.json from checks.json (claimed properties) + properties.jsonl."""
import json,subprocess
props=[json.loads(l) for l in open('/verif/properties.jsonl')]
checks=json.load(open('/verif/checks.json'))
na_reasons=json.load(open('/verif/not_applicable.json'))
hooks_commits=subprocess.run(['git','-C','/repo','log','--format=%h %s','3113f9d..HEAD'],capture_output=True,text=True).stdout.strip().split('\n')
src=[l.split()[0] for l in hooks_commits if l and (' verif:' in ' '+l)]
m={"version":1,
 "setup_cmd":"cd /verif/engine && GOFLAGS=-mod=mod GOPROXY=off GOSUMDB=off GOTOOLCHAIN=local go build -o /verif/bin/govc .",
 "hooks":{"guard":"verif","enable":"contracts are comment-only files kernel/**/zz_contracts_verif.go behind //go:build verif; the checks read them as text (nothing is compiled into the kernel), so the code verified is exactly the code built without the tag","baseline_off_cmd":"cd /repo/kernel && GOFLAGS=-mod=mod go test -vet=off -count=1 ./... ; cd /repo/kbuild && GOFLAGS=-mod=mod go test -vet=off -count=1 ./...","source_commits":src,"add_only":True},
 "engines":[{"name":"govc","path":"/verif/engine","serves_properties":sorted(checks.keys()),"kind_free_text":"self-written deductive verifier for Go: go/ssa -> path-wise verification conditions from Gobra-style contracts (requires/ensures/invariant/decreases/modifies/ghost) -> SMT-LIB, discharged by z3 5.1.0 / cvc5 1.0 / z3 4.8.12"}],
 "checks":[], "not_applicable":[], "notes":"See DESIGN.md (section 12 = as built). quick and thorough run the same obligations; thorough uses longer solver limits and re-checks every discharged obligation with a second solver. Contracts live in /repo/kernel/**/zz_contracts_verif.go (hook commits). known_findings.json lists fixed defects. seeded/ holds independently produced property-breaking changes used to test the checks."}
for p in props:
    id=p['id']
    if id in checks:
        c=checks[id]
        m['checks'].append({"property_id":id,"quick_cmd":f"/verif/bin/govc check -p {id} -tier quick","thorough_cmd":f"/verif/bin/govc check -p {id} -tier thorough","evidence_file":f"/verif/evidence/{id}.json","replay_cmd_template":"/verif/bin/govc replay {path}","engine":"govc","level_claimed":{"category":"proof","text":c['text'],"design_ref":c.get('design_ref','DESIGN.md section 8, '+id)},"level_note":c['note'],"technique":c.get('technique',"contract-based deductive verification: weakest-precondition style VCs generated from go/ssa of the real functions against contracts in zz_contracts_verif.go, discharged by SMT (z3/cvc5)")})
    else:
        m['not_applicable'].append({"property_id":id,"reason":na_reasons[id]})
json.dump(m,open('/verif/MANIFEST.json','w'),indent=1)
print(len(m['checks']),'checks',len(m['not_applicable']),'n/a')
